"""Contracts for penman/tree.py (C10: relabelling variables; node lists used by C04)."""
from vlib.pyvc.dsl import *


@contract('penman.tree:is_atomic')
def is_atomic_c(x: 'val') -> 'bool':
    ensures(result == is_atomic(x))


@spec
def wf_tnode(t: 'val') -> 'bool':
    """type invariant of tree nodes (T10): (var, [(role, target)...]), targets atomic or nodes"""
    return (is_tuple(t) and len(t) == 2 and is_list(t[1])
            and forall_idx(t[1], lambda i, b: is_tuple(b) and len(b) == 2 and is_str(b[0])
                           and (is_atomic(b[1]) or wf_tnode(b[1]))))


@spec
def vars_mapped(t: 'val', varmap: 'dict') -> 'bool':
    """every node variable of the tree has an entry in the map (first pass of reset_variables)"""
    return (dict_has(varmap, t[0]) and is_str(dict_get(varmap, t[0]))
            and forall_idx(t[1], lambda i, b: is_atomic(b[1]) or vars_mapped(b[1], varmap)))


@spec
def map_atom(role: 'str', tgt: 'val', varmap: 'dict') -> 'val':
    """a non-concept atomic target that denotes a mapped variable -- with or without an alignment
    suffix -- is replaced by the new name (suffix kept); everything else is untouched"""
    if role != '/' and is_str(tgt) and (not tgt.startswith('"')) \
            and dict_has(varmap, tgt.partition('~')[0]):
        return dict_get(varmap, tgt.partition('~')[0]) + tgt.partition('~')[1] + tgt.partition('~')[2]
    return tgt


@spec
def map_branches(bs: 'list', varmap: 'dict') -> 'list':
    if len(bs) == 0:
        return []
    if is_atomic(bs[-1][1]):
        return map_branches(bs[:-1], varmap) + [(bs[-1][0], map_atom(bs[-1][0], bs[-1][1], varmap))]
    return map_branches(bs[:-1], varmap) + [(bs[-1][0], map_node(bs[-1][1], varmap))]


@spec
def map_node(t: 'val', varmap: 'dict') -> 'val':
    """same shape, roles and concepts; each node variable replaced by its image"""
    return (dict_get(varmap, t[0]), map_branches(t[1], varmap))


@contract('penman.tree:_map_vars')
def _map_vars(node: 'val', varmap: 'dict') -> 'tuple':
    requires(wf_tnode(node))
    requires(vars_mapped(node, varmap))
    requires(dict_values_str(varmap))
    ensures(result == map_node(node, varmap))
    invariant(0, lambda: newbranches == map_branches(branches[:_i], varmap))
    invariant(0, lambda: var == node[0] and branches == node[1])


# ---- the flat node list (Tree.nodes) ---------------------------------------------------------------

@spec
def branch_nodes(bs: 'list') -> 'list':
    if len(bs) == 0:
        return []
    if is_atomic(bs[-1][1]):
        return branch_nodes(bs[:-1])
    return branch_nodes(bs[:-1]) + nodes_of(bs[-1][1])


@spec
def nodes_of(t: 'val') -> 'list':
    """the node itself (unless its variable is None) followed by its descendants, depth first"""
    if t[0] is None:
        return branch_nodes(t[1])
    return [t] + branch_nodes(t[1])


@contract('penman.tree:_nodes')
def _nodes(node: 'val') -> 'list':
    requires(wf_tnode(node))
    ensures(result == nodes_of(node))
    invariant(0, lambda: ns == ([] if var is None else [node]) + branch_nodes(branches[:_i]))
    invariant(0, lambda: var == node[0] and branches == node[1])


@contract('penman.tree:Tree.nodes')
def Tree_nodes(self: 'Tree') -> 'list':
    requires(wf_tnode(self.node))
    ensures(result == nodes_of(self.node))


# ---- Tree.reset_variables (C10): contract stated on the real method and executed by the native sweep
# (str.format with named fields and the first-fit search are outside the verified subset)

@contract('penman.tree:Tree.reset_variables', bounded=True, why='str.format(**fields), first-fit while loop')
def reset_variables(self: 'Tree', fmt: 'str') -> 'none':
    modifies(self)
    requires(wf_tnode(self.node))
    requires('{i}' in fmt or '{j}' in fmt)          # (without them: recorded finding N4, no termination)
    # same shape, roles, concepts and constants; the variables are renamed by a bijection
    ensures(len(nodes_of(self.node)) == len(nodes_of(old(self).node)), label='same-nodes')
    ensures(len({n[0] for n in nodes_of(self.node)}) == len({n[0] for n in nodes_of(old(self).node)}), label='injective')
    ensures(all(len({m[0] for n, m in zip(nodes_of(old(self).node), nodes_of(self.node)) if n[0] == v}) == 1
                for v in {n[0] for n in nodes_of(old(self).node)}), label='consistent')
    ensures(all([r for r, _ in n[1]] == [r for r, _ in m[1]]
                for n, m in zip(nodes_of(old(self).node), nodes_of(self.node))), label='roles-kept')
    ensures(self.metadata == old(self).metadata, label='metadata-kept')


# ---- the default variable prefix (C10): first alphabetic character of the concept, lower-cased -----------

@contract('penman.tree:_default_variable_prefix')
def _default_variable_prefix(concept: 'val') -> 'str':
    # a concept that is not a non-empty string has the prefix '_'
    ensures(implies(not (is_str(concept) and len(concept) > 0), result == '_'), label='no-text')
    # otherwise: the first alphabetic character, lower-cased; '_' when there is none
    ensures(implies(is_str(concept) and len(concept) > 0,
                    (result == '_' and forall_idx(concept, lambda j, c: not c.isalpha()))
                    or exists_idx(concept, lambda k, c: c.isalpha() and result == c.lower()
                                  and forall_idx(concept[:k], lambda j, d: not d.isalpha()))), label='first-letter')
    invariant(0, lambda: prefix == '_' and forall_idx(concept[:_i], lambda j, c: not c.isalpha()))
