"""Contracts for penman/codec.py: the public entry points hand the *selected* model (and the
formatting options) to every stage (C02, C03: encode(decode(s)) and decode(encode(g)) are stated over
interpret / configure *with the model the caller chose*).

view='stages' (as in c_main.py): parse, interpret, configure and format are opaque functions of their
arguments, named by uninterpreted functions; what is proved is which stages an entry point applies,
in which order, and with which arguments."""
from vlib.pyvc.dsl import *


@spec(uninterpreted=True)
def st_parse(s: 'val') -> 'val':
    """_parse.parse"""


@spec(uninterpreted=True)
def st_format(t: 'val', indent: 'val', compact: 'val') -> 'val':
    """_format.format"""


@contract('penman._parse:parse@stages')
def parse_st(s: 'val') -> 'obj':
    option(axiom=True)
    ensures(result.state == st_parse(s))


@contract('penman._format:format@stages')
def format_st(tree: 'obj', indent: 'val', compact: 'val') -> 'val':
    option(axiom=True)
    ensures(result == st_format(tree.state, indent, compact))


@contract('penman.codec:PENMANCodec.__init__', view='stages')
def codec_init(self: 'Codec', model: 'Model') -> 'none':
    modifies(self)
    # the codec keeps the model it was given (a missing one is the default model: not covered here,
    # a parameter of kind Model is never None in this framework)
    ensures(self.model == model)


@contract('penman.codec:PENMANCodec.decode', view='stages')
def codec_decode(self: 'Codec', s: 'val') -> 'obj':
    # parse, then interpret WITH THE CODEC'S MODEL
    ensures(result.state == st_interpret(st_parse(s), self.model))


@contract('penman.codec:PENMANCodec.parse', view='stages')
def codec_parse(self: 'Codec', s: 'val') -> 'obj':
    ensures(result.state == st_parse(s))


@contract('penman.codec:PENMANCodec.format', view='stages')
def codec_format(self: 'Codec', tree: 'obj', indent: 'val', compact: 'val') -> 'val':
    ensures(result == st_format(tree.state, indent, compact))


@contract('penman.codec:PENMANCodec.encode', view='stages')
def codec_encode(self: 'Codec', g: 'obj', top: 'val', indent: 'val', compact: 'val') -> 'val':
    # configure from the requested top WITH THE CODEC'S MODEL, then format with the caller's options
    ensures(result == st_format(st_configure(g.state, top, self.model), indent, compact))


@contract('penman.codec:_decode', view='stages')
def _decode(s: 'val', model: 'Model') -> 'obj':
    ensures(result.state == st_interpret(st_parse(s), model))


@contract('penman.codec:_encode', view='stages')
def _encode(g: 'obj', top: 'val', model: 'Model', indent: 'val', compact: 'val') -> 'val':
    ensures(result == st_format(st_configure(g.state, top, model), indent, compact))


# ---- triple conjunctions through the codec (C19) ---------------------------------------------------------

@spec(uninterpreted=True)
def st_format_triples(triples: 'val', indent: 'val') -> 'val':
    """_format.format_triples"""


@spec(uninterpreted=True)
def st_parse_triples(s: 'val') -> 'val':
    """_parse.parse_triples"""


@contract('penman._format:format_triples@stages')
def format_triples_st(triples: 'val', indent: 'val') -> 'val':
    option(axiom=True)
    ensures(result == st_format_triples(triples, indent))


@contract('penman._parse:parse_triples@stages')
def parse_triples_st(s: 'val') -> 'val':
    option(axiom=True)
    ensures(result == st_parse_triples(s))


@contract('penman.codec:PENMANCodec.format_triples', view='stages')
def codec_format_triples(self: 'Codec', triples: 'val', indent: 'val') -> 'val':
    # the list as given (every conjunct, repeated ones included), the caller's line style
    ensures(result == st_format_triples(triples, indent))


@contract('penman.codec:PENMANCodec.parse_triples', view='stages')
def codec_parse_triples(self: 'Codec', s: 'val') -> 'val':
    ensures(result == st_parse_triples(s))
