"""Contracts for penman/layout.py: tree -> graph interpretation against the documented
Reading (C04, C02, C14), and the layout diagnostics (C14)."""
from vlib.pyvc.dsl import *


# ---- the documented reading of role and atom texts (docs/notation.rst, structures.rst) ---------

@spec
def role_part(role: 'str') -> 'str':
    """'/' is the concept role; an alignment suffix (from the first '~') is not part of the role"""
    if role == '/':
        return ':instance'
    if '~' in role:
        return role.partition('~')[0]
    return role


@spec
def role_markers(role: 'str') -> 'list':
    if role != '/' and '~' in role:
        return [aln_marker('RoleAlignment', role.partition('~')[2])]
    return []


@spec
def role_aln_ok(role: 'str') -> 'bool':
    return role == '/' or not ('~' in role) or aln_ok(role.partition('~')[2])


@spec
def atom_part(target: 'val') -> 'val':
    """the atom without its alignment; for a quoted string the alignment starts after the LAST
    quote, so a '~' inside the quotes is content"""
    if target is None or target == '' or not ('~' in target):
        return target
    if target.startswith('"'):
        if last_index(target, '"') + 1 < len(target):
            return target[:last_index(target, '"') + 1]
        return target
    return target.partition('~')[0]


@spec
def atom_markers(target: 'val') -> 'list':
    if target is None or target == '' or not ('~' in target):
        return []
    if target.startswith('"'):
        if last_index(target, '"') + 1 < len(target):
            return [aln_marker('Alignment', target[last_index(target, '"') + 1:])]
        return []
    return [aln_marker('Alignment', target.partition('~')[2])]


@spec
def atom_aln_ok(target: 'val') -> 'bool':
    if target is None or target == '' or not ('~' in target):
        return True
    if target.startswith('"'):
        return not (last_index(target, '"') + 1 < len(target)) or aln_ok(target[last_index(target, '"') + 1:])
    return aln_ok(target.partition('~')[2])


@contract('penman.layout:_process_role')
def _process_role(role: 'str') -> 'tuple':
    raises(SurfaceError, when=not role_aln_ok(role))
    ensures(result[0] == role_part(role))
    ensures(list(result[1]) == role_markers(role))
    ensures(len(result) == 2 and is_tuple(result[1]))


@contract('penman.layout:_process_atomic')
def _process_atomic(target: 'optstr') -> 'tuple':
    raises(SurfaceError, when=not atom_aln_ok(target))
    ensures(result[0] == atom_part(target))
    ensures(list(result[1]) == atom_markers(target))
    ensures(len(result) == 2 and is_tuple(result[1]))


# ---- the documented Reading of a tree ------------------------------------------------------------
# A node is (var, [branch, ...]); a branch is (role, target); a target is an atom (None or str) or
# a node.  read_edges/read_node return the list of (triple, [markers]) pairs in depth-first order.

@spec
def wf_branch(b: 'val') -> 'bool':
    """a branch is (role, target); a target is an atom (None or str) or a node (var, branches)"""
    return (is_tuple(b) and len(b) == 2 and is_str(b[0])
            and (b[1] is None or is_str(b[1])
                 or (is_tuple(b[1]) and len(b[1]) == 2 and is_list(b[1][1])
                     and forall_idx(b[1][1], lambda j, c: wf_branch(c)))))


@spec
def wf_node(t: 'val') -> 'bool':
    """type invariant of tree nodes (T10): (var, list of (role, atom-or-node))"""
    return (is_tuple(t) and len(t) == 2 and is_list(t[1])
            and forall_idx(t[1], lambda i, b: wf_branch(b)))


@spec
def deinv(model: 'Model', triple: 'tuple') -> 'tuple':
    """the model's single deinversion: swap source and target of an inverted triple (never under
    the no-op model)"""
    if (not noop(model)) and (not has(model, triple[1])) and triple[1].endswith('-of'):
        return (triple[2], triple[1][:-3], triple[0])
    return triple


@spec(opaque=True)
def with_pop(entries: 'list') -> 'list':
    """POP is recorded on the last triple of a nested node"""
    return init(entries) + [(last(entries)[0], last(entries)[1] + [mk('Pop')])]


@spec
def read_edge(var: 'val', branch: 'val', variables: 'set', model: 'Model') -> 'list':
    if is_atomic(branch[1]):
        if (not has(model, role_part(branch[0]))) and role_part(branch[0]).endswith('-of') \
                and atom_part(branch[1]) in variables:
            # an inverted role on another node's variable is deinverted once
            return [(deinv(model, (var, role_part(branch[0]), atom_part(branch[1]))),
                     role_markers(branch[0]) + atom_markers(branch[1]))]
        # an inverted role on a constant is left as written
        return [((var, role_part(branch[0]), atom_part(branch[1])),
                 role_markers(branch[0]) + atom_markers(branch[1]))]
    return ([(deinv(model, (var, role_part(branch[0]), branch[1][0])),
              role_markers(branch[0]) + [mk('Push', branch[1][0])])]
            + with_pop(read_node(branch[1], variables, model)))


@spec
def read_edges(var: 'val', edges: 'list', variables: 'set', model: 'Model') -> 'list':
    if len(edges) == 0:
        return []
    return read_edges(var, edges[:-1], variables, model) + read_edge(var, edges[-1], variables, model)


@spec
def concept_written(edges: 'list') -> 'bool':
    if len(edges) == 0:
        return False
    return concept_written(edges[:-1]) or role_part(edges[-1][0]) == ':instance'


@spec
def read_node(t: 'val', variables: 'set', model: 'Model') -> 'list':
    """one instance triple per node (null concept, listed first, if none is written), then one
    triple per branch in depth-first order"""
    if concept_written(t[1]):
        return read_edges(t[0], t[1], variables, model)
    return [((t[0], ':instance', None), [])] + read_edges(t[0], t[1], variables, model)


@spec
def edge_triples(var: 'val', branch: 'val', variables: 'set', model: 'Model') -> 'list':
    """the triples one branch denotes (the same reading as read_edge, triples only)"""
    if is_atomic(branch[1]):
        if (not has(model, role_part(branch[0]))) and role_part(branch[0]).endswith('-of') \
                and atom_part(branch[1]) in variables:
            return [deinv(model, (var, role_part(branch[0]), atom_part(branch[1])))]
        return [(var, role_part(branch[0]), atom_part(branch[1]))]
    return [deinv(model, (var, role_part(branch[0]), branch[1][0]))] + node_triples(branch[1], variables, model)


@spec
def edges_triples(var: 'val', edges: 'list', variables: 'set', model: 'Model') -> 'list':
    if len(edges) == 0:
        return []
    return edges_triples(var, edges[:-1], variables, model) + edge_triples(var, edges[-1], variables, model)


@spec
def node_triples(t: 'val', variables: 'set', model: 'Model') -> 'list':
    if concept_written(t[1]):
        return edges_triples(t[0], t[1], variables, model)
    return [(t[0], ':instance', None)] + edges_triples(t[0], t[1], variables, model)


@spec
def pair_with_list(e: 'val') -> 'bool':
    """a (triple, [markers]) entry"""
    return is_tuple(e) and len(e) == 2 and is_list(e[1])


@contract('penman.layout:_interpret_node')
def _interpret_node(t: 'val', variables: 'set', model: 'Model') -> 'tuple':
    requires(wf_node(t))
    # (an ill-formed alignment suffix in a hand-built tree raises SurfaceError; the parser only
    # produces well-formed ones)
    raises(SurfaceError)
    ensures(len(result) == 3 and result[0] == t[0], label='var')
    ensures(result[2] == read_node(t, variables, model), label='reading')
    ensures(result[1] == node_triples(t, variables, model), label='triples')
    ensures(is_list(result[2]) and len(result[2]) >= 1 and pair_with_list(result[2][-1]), label='nonempty')
    ensures(forall_idx(result[2], lambda j, e: pair_with_list(e)), label='shape')
    ensures(is_list(result[1]), label='triples-list')
    ensures(forall_idx(result[1], lambda j, tr: is_tuple(tr) and len(tr) == 3 and is_str(tr[1])), label='triples-wf')
    invariant(0, lambda: epidata == read_edges(var, edges[:_i], variables, model))
    invariant(0, lambda: triples == edges_triples(var, edges[:_i], variables, model))
    invariant(0, lambda: has_concept == concept_written(edges[:_i]))
    invariant(0, lambda: var == t[0] and edges == t[1])
    invariant(0, lambda: len(epidata) == 0 or pair_with_list(epidata[-1]))
    invariant(0, lambda: implies(has_concept, len(epidata) >= 1))
    invariant(0, lambda: forall_idx(epidata, lambda j, e: pair_with_list(e)))
    invariant(0, lambda: is_list(triples) and forall_idx(triples, lambda j, tr: is_tuple(tr) and len(tr) == 3 and is_str(tr[1])))
    # proof hints for the nested-node step: one unfolding of read_edges, and with_pop spelled out
    use('loop0.step.0', lambda: read_edges_step(var, edges, _i - 1, variables, model))
    use('loop0.step.0', lambda: with_pop_is(read_node(target, variables, model)))
    use('post.nonempty', lambda: with_pop_is(read_node(target, variables, model)))


@lemma
def read_edges_step(var: 'val', es: 'list', k: 'int', variables: 'set', model: 'Model'):
    """one unfolding of read_edges, stated over prefixes (the form the loop invariant has)"""
    requires(0 <= k and k < len(es))
    ensures(read_edges(var, es[:k + 1], variables, model)
            == read_edges(var, es[:k], variables, model) + read_edge(var, es[k], variables, model))
    use('post', lambda: read_edges_snoc(var, es[:k], es[k], variables, model))
    use('post', lambda: prefix_snoc(es, k))


@lemma
def prefix_snoc(xs: 'list', k: 'int'):
    requires(0 <= k and k < len(xs))
    ensures(xs[:k + 1] == xs[:k] + [xs[k]])


@lemma
def read_edges_snoc(var: 'val', es: 'list', b: 'val', variables: 'set', model: 'Model'):
    ensures(read_edges(var, es + [b], variables, model)
            == read_edges(var, es, variables, model) + read_edge(var, b, variables, model))


@lemma
def with_pop_is(entries: 'list'):
    requires(len(entries) >= 1 and pair_with_list(entries[-1]))
    ensures(with_pop(entries) == init(entries) + [(last(entries)[0], last(entries)[1] + [mk('Pop')])])
    ensures(len(with_pop(entries)) == len(entries))
    ensures(pair_with_list(with_pop(entries)[-1]))


# ---- layout diagnostics (C14) ---------------------------------------------------------------------

@spec
def markers_of(g_epidata: 'dict', triple: 'val') -> 'val':
    """the marker list of a triple; a triple without an entry has none"""
    return dict_get(g_epidata, triple, [])


@spec
def epis_wf(epis: 'val') -> 'bool':
    return is_list(epis) and forall_idx(epis, lambda i, e: is_inst(e, 'Epidatum'))


@contract('penman.layout:get_pushed_variable')
def get_pushed_variable(g: 'Graph', triple: 'val') -> 'val':
    requires(epis_wf(markers_of(g.epidata, triple)))
    # the variable of the first Push marker on the triple, None without one (never raises: a triple
    # without a marker entry answers None)
    ensures(implies(forall_idx(markers_of(g.epidata, triple), lambda i, e: not is_inst(e, 'Push')), result is None))
    ensures(implies(not forall_idx(markers_of(g.epidata, triple), lambda i, e: not is_inst(e, 'Push')),
                    exists_idx(markers_of(g.epidata, triple),
                               lambda j, e: is_inst(e, 'Push') and result == e.variable
                               and forall_idx(markers_of(g.epidata, triple), lambda k, f: k >= j or not is_inst(f, 'Push')))))
    invariant(0, lambda: forall_idx(markers_of(g.epidata, triple), lambda k, f: k >= _i or not is_inst(f, 'Push')))


# ---- configuration data (C02, C03, C06): markers shape the text, never the content ---------------

@spec
def entry_triples(data: 'list') -> 'list':
    """the triples of the configuration data, in order (POP markers between them are skipped)"""
    if len(data) == 0:
        return []
    if is_tuple(data[-1]):
        return entry_triples(data[:-1]) + [data[-1][0]]
    return entry_triples(data[:-1])


@spec
def same_or_inverted(model: 'Model', t: 'val', orig: 'val') -> 'bool':
    """the triple as it is in the graph, or -- never for an instance triple -- inverted once"""
    return t == orig or (orig[1] != ':instance' and t == (orig[2], inv_role(model, orig[1]), orig[0]))


@spec
def datum_ok(d: 'val') -> 'bool':
    """a POP, or (triple, push?, [markers that are not layout markers])"""
    return is_inst(d, 'Pop') or (is_tuple(d) and len(d) == 3 and is_bool(d[1]) and is_list(d[2])
                                 and forall_idx(d[2], lambda m, e: not is_inst(e, 'LayoutMarker')))


@contract('penman.layout:_preconfigure')
def _preconfigure(g: 'Graph', model: 'Model') -> 'list':
    requires(wf_triples(g.triples))
    requires(forall_idx(g.triples, lambda k, t: epis_wf(markers_of(g.epidata, t))))
    # every triple of the graph appears exactly once, in order, as it is or inverted once -- whatever
    # the markers say (markers naming other variables, repeated ones and those on instance triples
    # are ignored); nothing else is in the data but POPs
    ensures(len(entry_triples(result)) == len(g.triples), label='one-entry-per-triple')
    ensures(forall_idx(g.triples, lambda k, t: same_or_inverted(model, entry_triples(result)[k], t)), label='content')
    ensures(forall_idx(result, lambda j, d: datum_ok(d)), label='shape')
    invariant(0, lambda: is_list(data) and len(entry_triples(data)) == _i)
    invariant(0, lambda: forall_idx(g.triples, lambda k, t: k >= _i or same_or_inverted(model, entry_triples(data)[k], t)))
    invariant(0, lambda: forall_idx(data, lambda j, d: datum_ok(d)))
    invariant(1, lambda: same_or_inverted(model, triple, g.triples[_i0]))
    invariant(1, lambda: triple == g.triples[_i0] or var in pushed)
    invariant(1, lambda: var == g.triples[_i0][0] and role == g.triples[_i0][1] and target == g.triples[_i0][2])
    invariant(1, lambda: is_list(pops) and forall_idx(pops, lambda m, e: is_inst(e, 'Pop')))
    invariant(1, lambda: is_list(epis) and forall_idx(epis, lambda m, e: not is_inst(e, 'LayoutMarker')))
    invariant(1, lambda: is_bool(push))
    use('loop0.step', lambda: pops_add_no_entries(at_iteration_start(0, data) + [(triple, push, epis)], pops))
    use('loop0.step', lambda: entry_adds_its_triple(at_iteration_start(0, data), (triple, push, epis)))


@lemma
def entry_adds_its_triple(xs: 'list', d: 'val'):
    requires(is_tuple(d))
    ensures(entry_triples(xs + [d]) == entry_triples(xs) + [d[0]])
    # the same, element by element (the form the solvers can use under a quantifier)
    ensures(len(entry_triples(xs + [d])) == len(entry_triples(xs)) + 1)
    ensures(entry_triples(xs + [d])[len(entry_triples(xs))] == d[0])
    ensures(forall_idx(entry_triples(xs), lambda k, t: entry_triples(xs + [d])[k] == t))


@lemma
def pops_add_no_entries(xs: 'list', ps: 'list'):
    """POP markers appended to the configuration data add no triple"""
    requires(forall_idx(ps, lambda m, e: is_inst(e, 'Pop')))
    ensures(entry_triples(xs + ps) == entry_triples(xs))
    induct('0', lambda: ps)


# ---- interpret: the graph a tree is read as (C04) ---------------------------------------------------

@spec
def triple_seen(k: 'val', entries: 'list') -> 'bool':
    """some entry is for the triple k"""
    if len(entries) == 0:
        return False
    return entries[-1][0] == k or triple_seen(k, entries[:-1])


@spec
def first_entry(entries: 'list', j: 'int') -> 'bool':
    """entry j is the first one of its triple"""
    return not triple_seen(entries[j][0], entries[:j])


@contract('penman.layout:interpret')
def interpret(t: 'Tree', model: 'Model') -> 'Graph':
    requires(wf_node(t.node) and wf_tnode(t.node))
    requires(dict_wf(t.metadata))
    raises(SurfaceError)
    # the triples are the documented reading (roles given their colon), the top is the root's variable
    ensures(result.triples == norm_triples(node_triples(t.node, {v for v, _ in nodes_of(t.node)}, model)), label='triples')
    ensures(result._top == t.node[0], label='top')
    # every triple of the reading has its markers; where a triple occurs twice the first occurrence counts
    ensures(forall_idx(read_node(t.node, {v for v, _ in nodes_of(t.node)}, model),
                       lambda j, e: dict_has(result.epidata, e[0])), label='markers-present')
    ensures(forall_idx(read_node(t.node, {v for v, _ in nodes_of(t.node)}, model),
                       lambda j, e: implies(first_entry(read_node(t.node, {v for v, _ in nodes_of(t.node)}, model), j),
                                            dict_get(result.epidata, e[0]) == e[1])), label='markers')
    ensures(t.node == old(t).node, label='argument-kept')
    invariant(0, lambda: forall_idx(epidata[:_i], lambda j, e: dict_has(epimap, e[0])))
    invariant(0, lambda: forall_idx(epidata[:_i], lambda j, e: implies(first_entry(epidata, j), dict_get(epimap, e[0]) == e[1])))
    invariant(0, lambda: forall_keys(epimap, lambda k: triple_seen(k, epidata[:_i])))
    invariant(0, lambda: dict_wf(epimap))


# ---- layout diagnostics (C14): stated on the real functions, executed natively -----------------------
# (the reference meaning is vlib/pyvc/natives.py, written from the documentation; the frame contracts of
# the same functions are in c_frames.py and are proved)

@spec(uninterpreted=True, native="importlib.import_module('vlib.pyvc.natives').contexts(g)")
def contexts_of(g: 'val') -> 'val':
    """the node context of every triple by the documented stack discipline"""


@spec(uninterpreted=True, native="importlib.import_module('vlib.pyvc.natives').inverted(g, triple)")
def inverted_in(g: 'val', triple: 'val') -> 'val':
    """whether the triple appears inverted, as documented"""


@contract('penman.layout:node_contexts@functional', bounded=True,
          why='try/except IndexError around a nested loop, [None] * n, item stores by index')
def node_contexts_f(g: 'Graph') -> 'list':
    ensures(len(result) == len(g.triples), label='one-per-triple')
    # innermost open node while it is the triple's source (or target, for an edge); unknown from the
    # first triple that does not fit, or once more nodes were closed than opened -- never an exception
    ensures(result == contexts_of(g), label='stack-discipline')


@contract('penman.layout:appears_inverted@functional', bounded=True,
          why='zip over the result of node_contexts with early exit')
def appears_inverted_f(g: 'Graph', triple: 'val') -> 'bool':
    ensures(result == inverted_in(g, triple), label='as-documented')
    # never for instance triples and attributes
    ensures(implies(triple[1] == ':instance' or triple[2] not in g.variables(), result is False), label='edges-only')
