"""Frame-only contracts (C17): functions documented as returning new objects must not mutate
anything reachable from their arguments.  `frames=True` means: no functional postcondition is
claimed here; every loop is cut by the trivial invariant; the only obligations kept are the
ownership (`frame`) obligations generated for each in-place mutation the real code performs."""
from vlib.pyvc.dsl import *


@contract('penman.layout:appears_inverted', frames=True)
def appears_inverted(g: 'Graph', triple: 'val') -> 'bool':
    modifies()


@contract('penman.layout:node_contexts', frames=True)
def node_contexts(g: 'Graph') -> 'list':
    modifies()


@contract('penman.surface:alignments', frames=True)
def alignments(g: 'Graph') -> 'dict':
    modifies()


@contract('penman.surface:role_alignments', frames=True)
def role_alignments(g: 'Graph') -> 'dict':
    modifies()


@contract('penman.surface:_get_alignments', frames=True)
def _get_alignments(g: 'Graph', alignment_type: 'val') -> 'dict':
    modifies()


@contract('penman.transform:reify_edges', frames=True)
def reify_edges(g: 'Graph', model: 'Model') -> 'Graph':
    modifies()


@contract('penman.transform:dereify_edges', frames=True)
def dereify_edges(g: 'Graph', model: 'Model') -> 'Graph':
    modifies()


@contract('penman.transform:_dereify_agenda', frames=True)
def _dereify_agenda(g: 'Graph', model: 'Model') -> 'dict':
    modifies()


@contract('penman.transform:reify_attributes', frames=True)
def reify_attributes(g: 'Graph') -> 'Graph':
    modifies()


@contract('penman.transform:indicate_branches', frames=True)
def indicate_branches(g: 'Graph', model: 'Model') -> 'Graph':
    modifies()
