"""Contracts for penman/constant.py (C18).  json.dumps / json.loads are external: their assumed
contracts (T4) are the uninterpreted functions json_dumps(s), json_loads_ok(s), json_loads(s) with
the axioms listed in vlib/pyvc/external.py (the json documentation's grammar of numbers, strings
and literals)."""
from vlib.pyvc.dsl import *


@contract('penman.constant:quote')
def quote(constant: 'atom') -> 'str':
    # None gives the empty string constant; anything else is the quoting of its string form
    ensures(result == ('""' if constant is None else json_dumps(str_of(constant))))


@spec
def no_json_blank(s: 'str') -> 'bool':
    """an atom text never contains an ASCII blank (C08); json would skip such blanks"""
    return not (' ' in s or '\t' in s or '\n' in s or '\r' in s)


@contract('penman.constant:evaluate')
def evaluate(constant_string: 'optstr') -> 'val':
    requires(constant_string is None or no_json_blank(constant_string))
    # total up to the documented error ...
    raises(ConstantError, when=constant_string is not None and constant_string != ''
           and ((constant_string.startswith('"') != constant_string.endswith('"'))
                or json_container(constant_string)))
    # None only for empty / None
    ensures((result is None) == (constant_string is None or constant_string == ''), label='null')
    # int / float only for JSON number syntax
    ensures(implies(is_int(result), in_re(constant_string, '-?(0|[1-9][0-9]*)')), label='int')
    ensures(implies(is_float(result),
                    in_re(constant_string, '-?(0|[1-9][0-9]*)(\\.[0-9]+)?([eE][+-]?[0-9]+)?')), label='float')
    # never a bool or a container
    ensures(result is None or is_str(result) or is_int(result) or is_float(result), label='kinds')
    # symbols are returned unchanged
    ensures(implies(is_str(result) and not constant_string.startswith('"'), result == constant_string), label='symbol')


# ---- type(): contract stated on the real function and executed by the native sweep (the value model of
# evaluate() -- Python floats and arbitrary-precision ints -- is outside the verified subset)

@spec(uninterpreted=True, native="importlib.import_module('penman.constant').evaluate(s)")
def value_of(s: 'val') -> 'val':
    """the value evaluate() gives (its own contract is above)"""


@contract('penman.constant:type', bounded=True, why='pytype/enum table lookups; Python float and int parsing')
def type_c(constant_string: 'optstr') -> 'val':
    raises(ConstantError)     # documented: unbalanced quotes / not a constant
    raises(ValueError)        # recorded finding N3 (integer strings beyond the conversion limit)
    raises(RecursionError)    # recorded finding N3
    # the reported type matches the Python type of the evaluated value ...
    ensures((result.value == 'Null') == (value_of(constant_string) is None), label='null')
    ensures((result.value == 'Integer') == (is_int(value_of(constant_string)) and not is_bool(value_of(constant_string))),
            label='integer')
    ensures((result.value == 'Float') == is_float(value_of(constant_string)), label='float')
    # ... and a string value is a STRING exactly when the constant is written in quotes, else a SYMBOL
    ensures(implies(is_str(value_of(constant_string)),
                    result.value == ('String' if constant_string.startswith('"') and constant_string.endswith('"')
                                     else 'Symbol')), label='string-or-symbol')
