"""Contracts for penman/_format.py (C03: every atomic target is written; C19: triple conjunctions;
part of C01)."""
from vlib.pyvc.dsl import *


@spec(uninterpreted=True, native="importlib.import_module('penman._format')._format_node(node, indent, column, variables)")
def fmt_node(node: 'val', indent: 'val', column: 'val', variables: 'set') -> 'str':
    """names the text _format_node produces for a nested node (deterministic)"""


@spec
def role_text(role: 'str') -> 'str':
    if role != '/' and not role.startswith(':'):
        return ':' + role
    return role


@contract('penman._format:_format_node')
def _format_node(node: 'val', indent: 'val', column: 'int', vars: 'set') -> 'str':
    option(axiom=True)      # verified separately (structure); here only its result is named
    ensures(result == fmt_node(node, indent, column, vars), label='define')


@contract('penman._format:_format_edge')
def _format_edge(edge: 'tuple', indent: 'val', column: 'int', vars: 'set') -> 'str':
    requires(len(edge) == 2 and is_str(edge[0]))
    requires(indent is None or is_int(indent))
    # a missing target (None or '') writes the role alone; every other atomic target -- 0 and 0.0
    # included -- is written after exactly one blank; a nested node likewise
    ensures(implies(edge[1] is None or edge[1] == '', result == role_text(edge[0])), label='missing')
    ensures(implies(is_atomic(edge[1]) and not (edge[1] is None or edge[1] == ''),
                    result == role_text(edge[0]) + ' ' + str_of(edge[1])), label='atomic-written')
    ensures(implies(not is_atomic(edge[1]),
                    result.startswith(role_text(edge[0]) + ' ')), label='nested')


@spec
def triple_text(t: 'val') -> 'str':
    """role(source, target) with the role's leading colons stripped"""
    return t[1].lstrip(':') + '(' + str_of(t[0]) + ', ' + str_of(t[2]) + ')'


@contract('penman._format:format_triples')
def format_triples(triples: 'list', indent: 'bool') -> 'str':
    requires(forall_idx(triples, lambda i, t: is_tuple(t) and len(t) == 3 and is_str(t[1])))
    # one conjunct per triple, in order, joined by ' ^' and a newline or a blank
    ensures(result == (' ^\n' if indent else ' ^ ').join([triple_text(t) for t in triples]))
    induct('0', lambda: triples)


@spec
def meta_line(key: 'str', value: 'str') -> 'str':
    """a metadata comment: '# ::key value', or '# ::key' for an empty value; the value is written as it is"""
    if value == '':
        return '# ::' + key
    return '# ::' + key + ' ' + value


@contract('penman._format:format')
def format(tree: 'Tree', indent: 'val', compact: 'bool') -> 'str':
    requires(wf_tnode(tree.node))
    requires(forall_idx(dict_keys(tree.metadata), lambda i, k: is_str(k) and is_str(dict_get(tree.metadata, k))))
    # one comment line per metadata item, in order, then the node (`vars` is the function's local:
    # the variables that may not be mistaken for attributes when compact)
    ensures(result == '\n'.join([meta_line(k, dict_get(tree.metadata, k)) for k in dict_keys(tree.metadata)]
                                + [fmt_node(tree.node, indent, 0, set(vars))]), label='lines')
    ensures(implies(not compact, len(vars) == 0), label='vars')
    induct('lines', lambda: dict_keys(tree.metadata))
