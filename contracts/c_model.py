"""Contracts for penman/model.py (role algebra; C13, used by C03/C04/C05/C16).

The role table of a model is the uninterpreted predicate has(model, role)
(= model._role_re.match(role) is not None), normalisations are the
uninterpreted map norm_has/norm_get: every obligation below is therefore
discharged for *every* model, not for the shipped ones."""
from vlib.pyvc.dsl import *


# ---- specification functions ------------------------------------------------

@spec
def inverted(model: 'Model', role: 'str') -> 'bool':
    """documented: a role is inverted iff it ends in -of and the model does not define it"""
    return (not has(model, role)) and role.endswith('-of')


@spec
def inv_role(model: 'Model', role: 'str') -> 'str':
    """documented inversion: strip one -of from an inverted role, otherwise append it"""
    if (not has(model, role)) and role.endswith('-of'):
        return role[:-3]
    return role + '-of'


@spec
def inversion_canonical(model: 'Model', role: 'str') -> 'bool':
    return inv_role(model, inv_role(model, role)) == role


# ---- contracts ------------------------------------------------------------------

@contract('penman.model:Model._has_role')
def _has_role(self: 'Model', role: 'str') -> 'bool':
    option(axiom=True)      # the regular-expression match itself is the abstraction boundary (T1)
    ensures(result == has(self, role))


@contract('penman.model:Model.has_role')
def has_role(self: 'Model', role: 'str') -> 'bool':
    ensures(result == (has(self, role) or (role.endswith('-of') and has(self, role[:-3]))))


@contract('penman.model:Model.is_role_inverted')
def is_role_inverted(self: 'Model', role: 'str') -> 'bool':
    ensures(result == inverted(self, role))
    # a role the model defines is never considered inverted, even if it ends in -of
    ensures(implies(has(self, role), result == False))


@contract('penman.model:Model.invert_role')
def invert_role(self: 'Model', role: 'str') -> 'str':
    ensures(result == inv_role(self, role))


@contract('penman.model:Model.invert')
def invert(self: 'Model', triple: 'tuple') -> 'tuple':
    requires(len(triple) == 3 and is_str(triple[1]))
    # swaps source and target, inverts the role
    ensures(result == (triple[2], inv_role(self, triple[1]), triple[0]))


@contract('penman.model:Model.deinvert')
def deinvert(self: 'Model', triple: 'tuple') -> 'tuple':
    requires(len(triple) == 3 and is_str(triple[1]))
    ensures(implies(inverted(self, triple[1]),
                    result == (triple[2], inv_role(self, triple[1]), triple[0])))
    ensures(implies(not inverted(self, triple[1]), result == triple))


@contract('penman.models.noop:NoOpModel.deinvert')
def noop_deinvert(self: 'Model', triple: 'tuple') -> 'tuple':
    ensures(result == triple)


@contract('penman.model:Model._canonicalize_inversion')
def _canonicalize_inversion(self: 'Model', role: 'str') -> 'str':
    # canon_inv names the (deterministic) result of this function
    ensures(result == canon_inv(self, role), label='define')
    # a defined role is returned unchanged
    ensures(implies(has(self, role), result == role), label='defined-unchanged')
    # inversions are removed (or, for roles like AMR's ":consist", added) only in pairs:
    # the role and the result have the same pair-free stem
    ensures(strip_pairs(result) == strip_pairs(role), label='parity')
    # the result is a role the model defines or a fixed point of double inversion ...
    ensures(has(self, result) or inversion_canonical(self, result), label='canonical')
    # ... and a role that already is one is returned unchanged
    ensures(implies(inversion_canonical(self, role), result == role), label='fixpoint-unchanged')
    ensures(implies(role.startswith(':'), result.startswith(':')), label='colon-kept')
    invariant(0, lambda: strip_pairs(role) == strip_pairs(old(role)))
    invariant(0, lambda: implies(inversion_canonical(self, old(role)), role == old(role)))
    invariant(0, lambda: not has(self, old(role)))
    invariant(0, lambda: implies(old(role).startswith(':'), role.startswith(':')))
    # termination: the role can grow (by one pair) only in the first iteration
    invariant(0, lambda: role == old(role) or role.endswith('-of') or not has(self, role + '-of'))
    invariant(0, lambda: role == old(role) or not has(self, role))
    invariant(0, lambda: role == old(role) or len(role) < len(old(role))
              or (role == old(role) + '-of-of' and has(self, old(role) + '-of')))
    decreases(0, lambda: len(role) + (12 if role == old(role) else 0))


@spec
def strip_pairs(role: 'str') -> 'str':
    """the role without its trailing pairs of inversions"""
    if role.endswith('-of-of'):
        return strip_pairs(role[:-6])
    return role


@contract('penman.model:Model.canonicalize_role')
def canonicalize_role(self: 'Model', role: 'str') -> 'str':
    ensures(result == canon_role(self, role))


@spec
def with_colon(role: 'str') -> 'str':
    if role != '/' and not role.startswith(':'):
        return ':' + role
    return role


@spec(uninterpreted=True, native='model._canonicalize_inversion(role)')
def canon_inv(model: 'Model', role: 'str') -> 'str':
    """the result of Model._canonicalize_inversion (characterised by its contract)"""


@spec
def canon_role(model: 'Model', role: 'str') -> 'str':
    if norm_has(model, canon_inv(model, with_colon(role))):
        return norm_get(model, canon_inv(model, with_colon(role)))
    return canon_inv(model, with_colon(role))


@contract('penman.model:Model.canonicalize')
def canonicalize(self: 'Model', triple: 'tuple') -> 'tuple':
    requires(len(triple) == 3 and is_str(triple[1]))
    ensures(result == (triple[0], canon_role(self, triple[1]), triple[2]))


# ---- property-level lemmas of C13 (proved over the contracts above, for every model) ----------

@lemma
def canonicalize_role_adds_colon(model: 'Model', role: 'str'):
    """canonicalising adds the leading colon (before the model's normalisation is looked up)"""
    option(module='penman.model')
    c = model._canonicalize_inversion(with_colon(role))
    ensures(role == '/' or c.startswith(':'))


@lemma
def canonicalize_role_idempotent(model: 'Model', role: 'str'):
    """canonicalising is idempotent.  Recorded exclusion N6: a normalisation target that is itself
    normalisable, not in canonical inversion form, or without its colon."""
    option(module='penman.model')
    requires(role != '/')
    requires(implies(norm_has(model, canon_inv(model, with_colon(role))),
                     (not norm_has(model, norm_get(model, canon_inv(model, with_colon(role)))))
                     and inversion_canonical(model, norm_get(model, canon_inv(model, with_colon(role))))
                     and norm_get(model, canon_inv(model, with_colon(role))).startswith(':')))
    x = model._canonicalize_inversion(with_colon(role))
    c = model.canonicalize_role(role)
    y = model._canonicalize_inversion(with_colon(c))
    c2 = model.canonicalize_role(c)
    ensures(c2 == c)


@lemma
def invert_role_involution(model: 'Model', role: 'str'):
    """on roles in canonical inversion form, inverting is an involution that flips inverted-ness.
    Recorded exclusion N7: the model defines both r and r-of."""
    option(module='penman.model')
    requires(inversion_canonical(model, role))
    requires(not (has(model, role) and has(model, role + '-of')))
    i1 = model.invert_role(role)
    i2 = model.invert_role(i1)
    a = model.is_role_inverted(role)
    b = model.is_role_inverted(i1)
    ensures(i2 == role)
    ensures(a != b)


@lemma
def deinvert_laws(model: 'Model', s: 'val', role: 'str', t: 'val'):
    """deinverting an inverted triple equals inverting it; a non-inverted triple is unchanged;
    under the no-op model deinverting is the identity"""
    option(module='penman.model')
    d = model.deinvert((s, role, t))
    inv = model.invert((s, role, t))
    inverted_ = model.is_role_inverted(role)
    ensures(implies(noop(model), d == (s, role, t)))
    ensures(implies(not noop(model) and inverted_, d == inv))
    ensures(implies(not noop(model) and not inverted_, d == (s, role, t)))
    ensures(inv == (t, inv_role(model, role), s))


# ---- reification tables (C11, C12) ---------------------------------------------------------------
# reifications: role -> [(concept, source_role, target_role), ...]   (reif_has / reif_get)
# dereifications: concept -> [(role, source_role, target_role), ...] (dereif_has / dereif_get)
# Model.__init__ builds both with defaultdict(list).append, so every list that exists is a
# non-empty list of 3-tuples: `tables_wf` is that invariant for the entries a call touches.

@spec
def entries_wf(entries: 'val') -> 'bool':
    return (is_list(entries) and len(entries) >= 1
            and forall_idx(entries, lambda i, e: is_tuple(e) and len(e) == 3 and is_str(e[1]) and is_str(e[2])))


@contract('penman.model:Model.is_role_reifiable')
def is_role_reifiable(self: 'Model', role: 'val') -> 'bool':
    ensures(result == reif_has(self, role))


@contract('penman.model:Model.is_concept_dereifiable')
def is_concept_dereifiable(self: 'Model', concept: 'val') -> 'bool':
    ensures(result == dereif_has(self, concept))


@contract('penman.model:Model.reify')
def reify(self: 'Model', triple: 'tuple', variables: 'optset') -> 'tuple':
    requires(len(triple) == 3)
    requires(implies(reif_has(self, triple[1]), entries_wf(reif_get(self, triple[1]))))
    raises(ModelError, when=not reif_has(self, triple[1]))
    # three triples around one node variable: (var src-role source) (var :instance concept) (var tgt-role target)
    ensures(len(result) == 3 and is_str(result[0][0]))
    ensures(result == ((result[0][0], reif_get(self, triple[1])[0][1], triple[0]),
                       (result[0][0], ':instance', reif_get(self, triple[1])[0][0]),
                       (result[0][0], reif_get(self, triple[1])[0][2], triple[2])), label='shape')
    # the node variable is fresh with respect to the given variables
    ensures(variables is None or not (result[0][0] in variables), label='fresh')
    invariant(0, lambda: is_str(var))


@spec
def fits(entry: 'val', source_role: 'val', target_role: 'val') -> 'bool':
    """a dereification table entry fits the two roles, directly or with the roles swapped"""
    return ((entry[1] == source_role and entry[2] == target_role)
            or (entry[2] == source_role and entry[1] == target_role))


@spec
def dereified(entry: 'val', source_triple: 'tuple', target_triple: 'tuple') -> 'tuple':
    """the edge runs from the argument of the entry's source role to that of its target role"""
    if entry[1] == source_triple[1] and entry[2] == target_triple[1]:
        return (source_triple[2], entry[0], target_triple[2])
    return (target_triple[2], entry[0], source_triple[2])


@contract('penman.model:Model.dereify')
def dereify(self: 'Model', instance_triple: 'tuple', source_triple: 'tuple', target_triple: 'tuple') -> 'tuple':
    requires(len(instance_triple) == 3 and len(source_triple) == 3 and len(target_triple) == 3)
    requires(implies(dereif_has(self, instance_triple[2]), entries_wf(dereif_get(self, instance_triple[2]))))
    raises(ValueError, when=instance_triple[1] != ':instance'
           or not (instance_triple[0] == source_triple[0] and source_triple[0] == target_triple[0]))
    raises(ModelError, when=(not dereif_has(self, instance_triple[2]))
           or forall_idx(dereif_get(self, instance_triple[2]),
                         lambda j, e: not fits(e, source_triple[1], target_triple[1])))
    # the first table entry (in table order) that fits decides the edge
    ensures(exists_idx(dereif_get(self, instance_triple[2]),
                       lambda j, e: fits(e, source_triple[1], target_triple[1])
                       and forall_idx(dereif_get(self, instance_triple[2]),
                                      lambda k, f: k >= j or not fits(f, source_triple[1], target_triple[1]))
                       and result == dereified(e, source_triple, target_triple)))
    invariant(0, lambda: forall_idx(dereif_get(self, concept), lambda k, f: k >= _i or not fits(f, source_role, target_role)))
    invariant(0, lambda: concept == instance_triple[2] and source_role == source_triple[1] and target_role == target_triple[1])


# ---- role sort keys (C05) --------------------------------------------------------------------------

@contract('penman.model:Model.original_order')
def original_order(self: 'Model', role: 'val') -> 'bool':
    # a constant key: sorting by it keeps the given order (sorted() is stable, T3)
    ensures(result == True)


@contract('penman.model:Model.alphanumeric_order')
def alphanumeric_order(self: 'Model', role: 'str') -> 'tuple':
    requires(not ('\n' in role))       # a role never contains a line break (NameChar)
    # name + numeric value of the maximal trailing digit run (so :op10 sorts after :op2):
    # role == name ++ digits, name ends in a non-digit, number == int(digits)
    ensures(result == alnum_of(self, role), label='define')
    ensures(len(result) == 2)
    ensures(implies(in_re(role, '.*[^0-9][0-9]+'),
                    is_str(result[0]) and role.startswith(result[0]) and in_re(result[0], '.*[^0-9]')
                    and in_re(role[len(result[0]):], '[0-9]+') and result[1] == int(role[len(result[0]):])),
            label='split')
    # a role without a trailing number (or made of digits only) keeps its text and gets number 0
    ensures(implies(not in_re(role, '.*[^0-9][0-9]+'), result == (role, 0)), label='plain')


@spec(uninterpreted=True)
def alnum_of(model: 'Model', role: 'str') -> 'tuple':
    """names the result of Model.alphanumeric_order (deterministic)"""


@contract('penman.model:Model.canonical_order')
def canonical_order(self: 'Model', role: 'str') -> 'tuple':
    requires(not ('\n' in role))
    # inverted roles last; within each group the alphanumeric order
    ensures(len(result) == 2 and result[0] == inverted(self, role), label='inverted-last')
    ensures(result[1] == alnum_of(self, role), label='then-alphanumeric')


# ---- Model(...) construction: the tables keep the order of the definitions (C11, C17) ----------------------
# stated on the real constructor, executed natively (defaultdict / regex construction are outside the subset)

@contract('penman.model:Model.__init__', bounded=True, why='defaultdict, re.compile of the role table')
def model_init(self: 'Model', top_variable: 'str', top_role: 'str', concept_role: 'str', roles: 'val',
               normalizations: 'val', reifications: 'val') -> 'none':
    modifies(self)
    # alternatives of one role / one concept are tried in the order in which they are defined: the tables
    # list them in definition order (the same in every process)
    ensures(all(self.reifications[r] == [(c, s, t) for r2, c, s, t in (reifications or []) if r2 == r]
                for r in self.reifications), label='reifications-in-definition-order')
    ensures(all(self.dereifications[c] == [(r, s, t) for r, c2, s, t in (reifications or []) if c2 == c]
                for c in self.dereifications), label='dereifications-in-definition-order')
    ensures(sorted(self.reifications) == sorted({r for r, c, s, t in (reifications or [])}), label='all-roles')


# ---- the error report (C16), stated on the real function and executed natively -------------------------

@spec(uninterpreted=True, native="importlib.import_module('vlib.pyvc.natives').errors(self, graph)")
def report_of(self: 'Model', graph: 'val') -> 'val':
    """the report property C16 describes: invalid role / unreachable per triple, empty / top messages"""


@contract('penman.model:Model.errors@functional', bounded=True,
          why='defaultdict(list), dict comprehension of sets in _dfs, while loop over a work list')
def model_errors_report(self: 'Model', graph: 'Graph') -> 'dict':
    ensures(result == report_of(self, graph), label='report')
    # "graph is empty" / the top messages exactly when they apply
    ensures((None in result and 'graph is empty' in result[None]) == (len(graph.triples) == 0), label='empty')
    ensures(all(('invalid role' in result.get(t, [])) == (not self.has_role(t[1])) for t in graph.triples),
            label='invalid-role')
