"""Contracts for penman/graph.py (C15; the constructor and `top`/`variables` are used by
C03, C04, C12, C16).  Triples are 3-tuples (source, role, target); `wf_triples` is the type
invariant of a triple list (T10)."""
from vlib.pyvc.dsl import *


@spec
def ensure_colon(role: 'str') -> 'str':
    if role.startswith(':'):
        return role
    return ':' + role


@spec
def wf_triples(ts: 'list') -> 'bool':
    """every element is a 3-tuple whose role is a string (type invariant of a triple list, T10)"""
    return forall_idx(ts, lambda i, t: is_tuple(t) and len(t) == 3 and is_str(t[1]))


@spec
def norm_triples(ts: 'list') -> 'list':
    """the triple list with every role carrying its colon"""
    if len(ts) == 0:
        return []
    return norm_triples(ts[:-1]) + [(ts[-1][0], ensure_colon(ts[-1][1]), ts[-1][2])]


@spec
def is_source(ts: 'list', x: 'val') -> 'bool':
    """x is the source of some triple"""
    if len(ts) == 0:
        return False
    return ts[-1][0] == x or is_source(ts[:-1], x)


@spec
def is_var(ts: 'list', top: 'val', x: 'val') -> 'bool':
    """variables = sources of the triples, plus an explicit top"""
    return is_source(ts, x) or (top is not None and x == top)


@spec
def select(ts: 'list', source: 'val', role: 'val', target: 'val') -> 'list':
    """sub-list of the triples matching the given source / role / target (None = any)"""
    if len(ts) == 0:
        return []
    if ((source is None or source == ts[-1][0]) and (role is None or role == ts[-1][1])
            and (target is None or target == ts[-1][2])):
        return select(ts[:-1], source, role, target) + [ts[-1]]
    return select(ts[:-1], source, role, target)


@spec
def edges_of(ts: 'list', all_ts: 'list', top: 'val') -> 'list':
    """non-instance triples of ts whose target is a variable of the graph (all_ts, top), in order"""
    if len(ts) == 0:
        return []
    if ts[-1][1] != ':instance' and is_var(all_ts, top, ts[-1][2]):
        return edges_of(ts[:-1], all_ts, top) + [ts[-1]]
    return edges_of(ts[:-1], all_ts, top)


@spec
def attributes_of(ts: 'list', all_ts: 'list', top: 'val') -> 'list':
    if len(ts) == 0:
        return []
    if ts[-1][1] != ':instance' and not is_var(all_ts, top, ts[-1][2]):
        return attributes_of(ts[:-1], all_ts, top) + [ts[-1]]
    return attributes_of(ts[:-1], all_ts, top)


@spec
def instances_of(ts: 'list') -> 'list':
    if len(ts) == 0:
        return []
    if ts[-1][1] == ':instance':
        return instances_of(ts[:-1]) + [ts[-1]]
    return instances_of(ts[:-1])


# ------------------------------------------------------------------------------------------

@contract('penman.graph:_ensure_colon')
def _ensure_colon(role: 'str') -> 'str':
    ensures(result == ensure_colon(role))


@contract('penman.graph:Graph.__init__')
def graph_init(self: 'Graph', triples: 'optlist', top: 'val', epidata: 'optodict', metadata: 'optodict') -> 'none':
    modifies(self)
    requires(triples is None or wf_triples(triples))
    ensures(self.triples == norm_triples(triples if triples is not None else []), label='triples')
    ensures(self._top == top, label='top')
    # triples whose roles already have their colon are taken as they are
    ensures(implies(triples is not None and forall_idx(triples, lambda k, t: t[1].startswith(':')),
                    self.triples == triples), label='triples-kept')
    # the marker table and the metadata are copied (a missing one is empty)
    ensures(implies(epidata is not None, dict_keys(self.epidata) == dict_keys(epidata)
                    and forall_idx(dict_keys(epidata), lambda i, k: dict_get(self.epidata, k) == dict_get(epidata, k))),
            label='epidata')
    ensures(implies(epidata is None, len(dict_keys(self.epidata)) == 0), label='epidata-default')
    ensures(implies(epidata is not None and dict_wf(epidata), dict_eq(self.epidata, epidata)), label='epidata-copied')
    ensures(implies(metadata is not None, dict_keys(self.metadata) == dict_keys(metadata)
                    and forall_idx(dict_keys(metadata), lambda i, k: dict_get(self.metadata, k) == dict_get(metadata, k))),
            label='metadata')
    ensures(implies(metadata is None, len(dict_keys(self.metadata)) == 0), label='metadata-default')
    induct('triples', lambda: triples)
    induct('triples-kept', lambda: triples)


@contract('penman.graph:Graph.top')
def graph_top(self: 'Graph') -> 'val':
    requires(wf_triples(self.triples))
    # explicit top, else the first triple's source, else None
    ensures(result == (self._top if self._top is not None
                       else (self.triples[0][0] if len(self.triples) > 0 else None)))


@contract('penman.graph:Graph.variables')
def graph_variables(self: 'Graph') -> 'set':
    requires(wf_triples(self.triples))
    # membership: x in result  <=>  x is a source or the explicit top
    ensures(result == set_where(lambda x: is_var(self.triples, self._top, x)))
    induct('0', lambda: self.triples)


@contract('penman.graph:Graph.top.setter')
def graph_top_setter(self: 'Graph', top: 'val') -> 'none':
    modifies(self)
    requires(wf_triples(self.triples))
    # assigning a top that is not a variable is refused
    raises(GraphError, when=top is not None and not is_var(self.triples, self._top, top))
    ensures(self._top == top)
    ensures(self.triples == old(self).triples)


@contract('penman.graph:Graph._filter_triples')
def graph_filter_triples(self: 'Graph', source: 'val', role: 'val', target: 'val') -> 'list':
    requires(wf_triples(self.triples))
    ensures(result == select(self.triples, source, role, target))
    induct('0', lambda: self.triples)


@contract('penman.graph:Graph.instances')
def graph_instances(self: 'Graph') -> 'list':
    requires(wf_triples(self.triples))
    ensures(result == instances_of(self.triples))
    induct('0', lambda: self.triples)


@contract('penman.graph:Graph.edges')
def graph_edges(self: 'Graph', source: 'val', role: 'val', target: 'val') -> 'list':
    requires(wf_triples(self.triples))
    # edges are exactly the non-instance triples whose target is a variable, filtered, in order
    ensures(result == edges_of(select(self.triples, source, role, target), self.triples, self._top))
    induct('0', lambda: select(self.triples, source, role, target))


@contract('penman.graph:Graph.attributes')
def graph_attributes(self: 'Graph', source: 'val', role: 'val', target: 'val') -> 'list':
    requires(wf_triples(self.triples))
    ensures(result == attributes_of(select(self.triples, source, role, target), self.triples, self._top))
    induct('0', lambda: select(self.triples, source, role, target))


# ---- set operations and re-entrancies (C15): contracts stated on the real methods and executed by the
# native sweep; not proved (iteration over sets, slice assignment, deepcopy are outside the verified subset)

@contract('penman.graph:Graph.__isub__')
def graph_isub(self: 'Graph', other: 'Graph') -> 'Graph':
    modifies(self)
    requires(wf_triples(self.triples) and wf_triples(other.triples))
    requires(dict_wf(self.epidata))
    # order-preserving difference
    ensures(self.triples == [t for t in old(self).triples if t not in other.triples], label='difference')
    # markers of removed triples go, the others stay as they were
    ensures(forall_keys(self.epidata, lambda k: dict_has(old(self).epidata, k) and (k not in other.triples)
                        and dict_get(self.epidata, k) == dict_get(old(self).epidata, k)), label='markers-kept')
    ensures(forall_keys(old(self).epidata, lambda k: dict_has(self.epidata, k) or (k in other.triples)),
            label='markers-only-removed-go')
    # an explicit top is dropped once it no longer occurs in any remaining triple
    ensures(self._top == (old(self)._top
                          if exists_idx(self.triples, lambda j, t: old(self)._top == t[0] or old(self)._top == t[2])
                          else None), label='top')
    ensures(other.triples == old(other).triples and other._top == old(other)._top, label='operand-kept')
    ensures(dict_eq(self.metadata, old(self).metadata), label='metadata-kept')
    invariant(0, lambda: dict_eq(self.metadata, old(self).metadata))
    invariant(0, lambda: forall_keys(self.epidata, lambda k: dict_has(old(self).epidata, k)
                                     and (k not in _order0[:_i])
                                     and dict_get(self.epidata, k) == dict_get(old(self).epidata, k)))
    invariant(0, lambda: forall_keys(old(self).epidata, lambda k: dict_has(self.epidata, k) or (k in _order0[:_i])))
    invariant(0, lambda: self.triples == [t for t in old(self).triples if t not in removed])
    invariant(0, lambda: self._top == old(self)._top and other.triples == old(other).triples)
    induct('difference', lambda: old(self).triples)


@contract('penman.graph:Graph.__ior__')
def graph_ior(self: 'Graph', other: 'Graph') -> 'Graph':
    modifies(self)
    requires(wf_triples(self.triples) and wf_triples(other.triples))
    requires(forall_keys(other.epidata, lambda k: is_list(dict_get(other.epidata, k))))     # marker lists (T10)
    # order-preserving union: the triples of the other graph that are new, in their order, after one's own
    ensures(self.triples == old(self).triples + [t for t in other.triples if t not in old(self).triples], label='union')
    # every triple of the other graph carries its markers along
    ensures(forall_keys(other.epidata, lambda k: dict_has(self.epidata, k)
                        and dict_get(self.epidata, k) == dict_get(other.epidata, k)), label='markers-carried')
    ensures(forall_keys(self.epidata, lambda k: dict_has(old(self).epidata, k) or dict_has(other.epidata, k)),
            label='no-other-markers')
    ensures(forall_keys(old(self).epidata, lambda k: dict_has(self.epidata, k)
                        and (dict_has(other.epidata, k) or dict_get(self.epidata, k) == dict_get(old(self).epidata, k))),
            label='own-markers-kept')
    ensures(self._top == old(self)._top, label='top-kept')
    ensures(other.triples == old(other).triples and other._top == old(other)._top, label='operand-kept')
    ensures(dict_eq(self.metadata, old(self).metadata), label='metadata-kept')
    invariant(0, lambda: dict_eq(self.metadata, old(self).metadata))
    invariant(0, lambda: self.triples == old(self).triples + [t for t in other.triples if t in new])
    invariant(0, lambda: self._top == old(self)._top and other.triples == old(other).triples)
    invariant(0, lambda: forall_keys(self.epidata, lambda k: dict_has(old(self).epidata, k) or dict_has(other.epidata, k)))
    invariant(0, lambda: forall_keys(old(self).epidata, lambda k: dict_has(self.epidata, k)
                                     and (dict_has(other.epidata, k)
                                          or dict_get(self.epidata, k) == dict_get(old(self).epidata, k))))
    induct('union', lambda: other.triples)


@contract('penman.graph:Graph.__or__')
def graph_or(self: 'Graph', other: 'Graph') -> 'Graph':
    requires(wf_triples(self.triples) and wf_triples(other.triples))
    requires(forall_keys(other.epidata, lambda k: is_list(dict_get(other.epidata, k))))
    ensures(result.triples == self.triples + [t for t in other.triples if t not in self.triples], label='union')
    ensures(forall_keys(other.epidata, lambda k: dict_has(result.epidata, k)
                        and dict_get(result.epidata, k) == dict_get(other.epidata, k)), label='markers-carried')
    ensures(result._top == self._top and len(dict_keys(result.metadata)) == 0, label='top-and-metadata')
    ensures(self.triples == old(self).triples and self._top == old(self)._top
            and other.triples == old(other).triples and other._top == old(other)._top, label='operands-kept')
    induct('union', lambda: other.triples)


@contract('penman.graph:Graph.__sub__')
def graph_sub(self: 'Graph', other: 'Graph') -> 'Graph':
    requires(wf_triples(self.triples) and wf_triples(other.triples))
    requires(dict_wf(self.epidata))
    ensures(result.triples == [t for t in self.triples if t not in other.triples], label='difference')
    ensures(result._top == (self._top
                            if exists_idx(result.triples, lambda j, t: self._top == t[0] or self._top == t[2])
                            else None), label='top')
    ensures(len(dict_keys(result.metadata)) == 0, label='metadata')
    ensures(self.triples == old(self).triples and self._top == old(self)._top
            and other.triples == old(other).triples and other._top == old(other)._top, label='operands-kept')
    induct('difference', lambda: self.triples)


@contract('penman.graph:Graph.reentrancies', bounded=True, why='defaultdict, generator into dict')
def graph_reentrancies(self: 'Graph') -> 'dict':
    requires(wf_triples(self.triples))
    # in-degree over edges (plus one for the top) minus one, listed only when positive
    ensures(all(result[v] == len([t for t in self.edges() if t[2] == v]) + (1 if v == self.top else 0) - 1
                and result[v] >= 1 for v in result), label='counts')
    ensures(all((v in result) == (len([t for t in self.edges() if t[2] == v]) + (1 if v == self.top else 0) >= 2)
                for v in self.variables()), label='listed-iff-reentrant')


@contract('penman.graph:Graph.__eq__')
def graph_eq(self: 'Graph', other: 'Graph') -> 'bool':
    requires(wf_triples(self.triples) and wf_triples(other.triples))
    # same top, as many triples, and the same triples as sets (order and markers do not count)
    ensures(result == (top_of(self.triples, self._top) == top_of(other.triples, other._top)
                       and len(self.triples) == len(other.triples)
                       and subset(set_of_seq(self.triples), set_of_seq(other.triples))
                       and subset(set_of_seq(other.triples), set_of_seq(self.triples))), label='equality')


@spec
def top_of(ts: 'list', top: 'val') -> 'val':
    """the explicit top, else the first triple's source, else None"""
    if top is not None:
        return top
    if len(ts) > 0:
        return ts[0][0]
    return None
