"""Contracts for penman/graph.py (C15; the constructor and `top`/`variables` are used by
C03, C04, C12, C16).  Triples are 3-tuples (source, role, target); `wf_triples` is the type
invariant of a triple list (T10)."""
from vlib.pyvc.dsl import *


@spec
def ensure_colon(role: 'str') -> 'str':
    if role.startswith(':'):
        return role
    return ':' + role


@spec
def wf_triples(ts: 'list') -> 'bool':
    """every element is a 3-tuple whose role is a string (type invariant of a triple list, T10)"""
    return forall_idx(ts, lambda i, t: is_tuple(t) and len(t) == 3 and is_str(t[1]))


@spec
def norm_triples(ts: 'list') -> 'list':
    """the triple list with every role carrying its colon"""
    if len(ts) == 0:
        return []
    return norm_triples(ts[:-1]) + [(ts[-1][0], ensure_colon(ts[-1][1]), ts[-1][2])]


@spec
def is_source(ts: 'list', x: 'val') -> 'bool':
    """x is the source of some triple"""
    if len(ts) == 0:
        return False
    return ts[-1][0] == x or is_source(ts[:-1], x)


@spec
def is_var(ts: 'list', top: 'val', x: 'val') -> 'bool':
    """variables = sources of the triples, plus an explicit top"""
    return is_source(ts, x) or (top is not None and x == top)


@spec
def select(ts: 'list', source: 'val', role: 'val', target: 'val') -> 'list':
    """sub-list of the triples matching the given source / role / target (None = any)"""
    if len(ts) == 0:
        return []
    if ((source is None or source == ts[-1][0]) and (role is None or role == ts[-1][1])
            and (target is None or target == ts[-1][2])):
        return select(ts[:-1], source, role, target) + [ts[-1]]
    return select(ts[:-1], source, role, target)


@spec
def edges_of(ts: 'list', all_ts: 'list', top: 'val') -> 'list':
    """non-instance triples of ts whose target is a variable of the graph (all_ts, top), in order"""
    if len(ts) == 0:
        return []
    if ts[-1][1] != ':instance' and is_var(all_ts, top, ts[-1][2]):
        return edges_of(ts[:-1], all_ts, top) + [ts[-1]]
    return edges_of(ts[:-1], all_ts, top)


@spec
def attributes_of(ts: 'list', all_ts: 'list', top: 'val') -> 'list':
    if len(ts) == 0:
        return []
    if ts[-1][1] != ':instance' and not is_var(all_ts, top, ts[-1][2]):
        return attributes_of(ts[:-1], all_ts, top) + [ts[-1]]
    return attributes_of(ts[:-1], all_ts, top)


@spec
def instances_of(ts: 'list') -> 'list':
    if len(ts) == 0:
        return []
    if ts[-1][1] == ':instance':
        return instances_of(ts[:-1]) + [ts[-1]]
    return instances_of(ts[:-1])


# ------------------------------------------------------------------------------------------

@contract('penman.graph:_ensure_colon')
def _ensure_colon(role: 'str') -> 'str':
    ensures(result == ensure_colon(role))


@contract('penman.graph:Graph.__init__')
def graph_init(self: 'Graph', triples: 'optlist', top: 'val', epidata: 'optodict', metadata: 'optodict') -> 'none':
    modifies(self)
    requires(triples is None or wf_triples(triples))
    ensures(self.triples == norm_triples(triples if triples is not None else []), label='triples')
    ensures(self._top == top, label='top')
    # the marker table and the metadata are copied (a missing one is empty)
    ensures(implies(epidata is not None, dict_keys(self.epidata) == dict_keys(epidata)
                    and forall_idx(dict_keys(epidata), lambda i, k: dict_get(self.epidata, k) == dict_get(epidata, k))),
            label='epidata')
    ensures(implies(epidata is None, len(dict_keys(self.epidata)) == 0), label='epidata-default')
    ensures(implies(metadata is not None, dict_keys(self.metadata) == dict_keys(metadata)
                    and forall_idx(dict_keys(metadata), lambda i, k: dict_get(self.metadata, k) == dict_get(metadata, k))),
            label='metadata')
    ensures(implies(metadata is None, len(dict_keys(self.metadata)) == 0), label='metadata-default')
    induct('triples', lambda: triples)


@contract('penman.graph:Graph.top')
def graph_top(self: 'Graph') -> 'val':
    requires(wf_triples(self.triples))
    # explicit top, else the first triple's source, else None
    ensures(result == (self._top if self._top is not None
                       else (self.triples[0][0] if len(self.triples) > 0 else None)))


@contract('penman.graph:Graph.variables')
def graph_variables(self: 'Graph') -> 'set':
    requires(wf_triples(self.triples))
    # membership: x in result  <=>  x is a source or the explicit top
    ensures(result == set_where(lambda x: is_var(self.triples, self._top, x)))
    induct('0', lambda: self.triples)


@contract('penman.graph:Graph.top.setter')
def graph_top_setter(self: 'Graph', top: 'val') -> 'none':
    modifies(self)
    requires(wf_triples(self.triples))
    # assigning a top that is not a variable is refused
    raises(GraphError, when=top is not None and not is_var(self.triples, self._top, top))
    ensures(self._top == top)
    ensures(self.triples == old(self).triples)


@contract('penman.graph:Graph._filter_triples')
def graph_filter_triples(self: 'Graph', source: 'val', role: 'val', target: 'val') -> 'list':
    requires(wf_triples(self.triples))
    ensures(result == select(self.triples, source, role, target))
    induct('0', lambda: self.triples)


@contract('penman.graph:Graph.instances')
def graph_instances(self: 'Graph') -> 'list':
    requires(wf_triples(self.triples))
    ensures(result == instances_of(self.triples))
    induct('0', lambda: self.triples)


@contract('penman.graph:Graph.edges')
def graph_edges(self: 'Graph', source: 'val', role: 'val', target: 'val') -> 'list':
    requires(wf_triples(self.triples))
    # edges are exactly the non-instance triples whose target is a variable, filtered, in order
    ensures(result == edges_of(select(self.triples, source, role, target), self.triples, self._top))
    induct('0', lambda: select(self.triples, source, role, target))


@contract('penman.graph:Graph.attributes')
def graph_attributes(self: 'Graph', source: 'val', role: 'val', target: 'val') -> 'list':
    requires(wf_triples(self.triples))
    ensures(result == attributes_of(select(self.triples, source, role, target), self.triples, self._top))
    induct('0', lambda: select(self.triples, source, role, target))
