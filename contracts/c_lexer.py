"""Contracts for penman/_lexer.py: the token iterator (C07, C19) against its abstract view.

Abstract view of a TokenIterator: rem(self) = the tokens still to come (the lookahead token, if
any, followed by what the underlying iterator still yields) and self._last, the last token
returned.  Representation invariant `ti_ok`: when there is no lookahead token the underlying
iterator is exhausted; tokens are Token objects whose type and text are strings."""
from vlib.pyvc.dsl import *


@spec
def is_token(t: 'val') -> 'bool':
    return (is_inst(t, 'Token') and nfields(t) == 5 and is_str(t.type) and is_str(t.text)
            and is_int(t.lineno) and is_int(t.offset))


@spec
def rem(nxt: 'val', rest: 'list') -> 'list':
    """the remaining tokens"""
    if nxt is None:
        return []
    return [nxt] + rest


@spec
def ti_ok(nxt: 'val', last: 'val', rest: 'list') -> 'bool':
    return ((nxt is None or is_token(nxt)) and (last is None or is_token(last))
            and (nxt is not None or len(rest) == 0)
            and forall_idx(rest, lambda i, t: is_token(t)))


@contract('penman._lexer:TokenIterator.__bool__')
def ti_bool(self: 'TokenIterator') -> 'bool':
    requires(ti_ok(self._next, self._last, self.iterator.seq))
    ensures(result == (len(rem(self._next, self.iterator.seq)) > 0))


@spec
def end_line(last: 'val') -> 'val':
    """where the input ran out: the line of the last token returned (0 if there was none)"""
    return 0 if last is None else last.lineno


@spec
def end_col(last: 'val') -> 'val':
    """... and the column just after it"""
    return 0 if last is None else last.offset + len(last.text)


@contract('penman._lexer:TokenIterator.error')
def ti_error(self: 'TokenIterator', message: 'str', token: 'val') -> 'val':
    requires(ti_ok(self._next, self._last, self.iterator.seq))
    requires(token is None or is_token(token))
    # the error points at the given token, or -- without one -- at the end of the last token returned
    ensures(is_inst(result, 'DecodeError'))
    ensures(result.lineno == (token.lineno if token is not None else end_line(self._last)), label='line')
    ensures(result.offset == (token.offset if token is not None else end_col(self._last)), label='column')


@contract('penman._lexer:TokenIterator.peek')
def ti_peek(self: 'TokenIterator') -> 'val':
    requires(ti_ok(self._next, self._last, self.iterator.seq))
    # exhaustion is converted into the decode error
    raises(DecodeError, when=len(rem(self._next, self.iterator.seq)) == 0,
           lineno=end_line(self._last), offset=end_col(self._last))
    ensures(result == rem(self._next, self.iterator.seq)[0] and is_token(result))


@contract('penman._lexer:TokenIterator.next')
def ti_next(self: 'TokenIterator') -> 'val':
    modifies(self)
    requires(ti_ok(self._next, self._last, self.iterator.seq))
    raises(StopIteration, when=len(rem(self._next, self.iterator.seq)) == 0)
    ensures(result == rem(old(self)._next, old(self).iterator.seq)[0] and is_token(result), label='first')
    ensures(rem(self._next, self.iterator.seq) == rem(old(self)._next, old(self).iterator.seq)[1:], label='advance')
    ensures(self._last == result, label='last')
    ensures(ti_ok(self._next, self._last, self.iterator.seq), label='inv')


@contract('penman._lexer:TokenIterator.expect')
def ti_expect(self: 'TokenIterator', choices: 'tuple') -> 'val':
    modifies(self)
    requires(ti_ok(self._next, self._last, self.iterator.seq))
    requires(forall_idx(choices, lambda i, c: is_str(c)))
    # only the decode error escapes: at the end of input, or at a token of another type
    raises(DecodeError, when=len(rem(self._next, self.iterator.seq)) == 0,
           lineno=end_line(self._last), offset=end_col(self._last))
    raises(DecodeError, when=len(rem(self._next, self.iterator.seq)) > 0
           and not (rem(self._next, self.iterator.seq)[0].type in choices),
           lineno=rem(self._next, self.iterator.seq)[0].lineno, offset=rem(self._next, self.iterator.seq)[0].offset)
    ensures(result == rem(old(self)._next, old(self).iterator.seq)[0] and is_token(result)
            and result.type in choices, label='first')
    ensures(rem(self._next, self.iterator.seq) == rem(old(self)._next, old(self).iterator.seq)[1:], label='advance')
    ensures(self._last == result, label='last')
    ensures(ti_ok(self._next, self._last, self.iterator.seq), label='inv')


@contract('penman._lexer:TokenIterator.accept')
def ti_accept(self: 'TokenIterator', choices: 'tuple') -> 'val':
    modifies(self)
    requires(ti_ok(self._next, self._last, self.iterator.seq))
    requires(forall_idx(choices, lambda i, c: is_str(c)))
    # never raises: returns the next token if its type is one of the choices, else None and no advance
    ensures(implies(len(rem(old(self)._next, old(self).iterator.seq)) > 0
                    and rem(old(self)._next, old(self).iterator.seq)[0].type in choices,
                    result == rem(old(self)._next, old(self).iterator.seq)[0]
                    and rem(self._next, self.iterator.seq) == rem(old(self)._next, old(self).iterator.seq)[1:]
                    and self._last == result), label='taken')
    ensures(implies(not (len(rem(old(self)._next, old(self).iterator.seq)) > 0
                         and rem(old(self)._next, old(self).iterator.seq)[0].type in choices),
                    result is None
                    and rem(self._next, self.iterator.seq) == rem(old(self)._next, old(self).iterator.seq)
                    and self._last == old(self)._last), label='refused')
    ensures(ti_ok(self._next, self._last, self.iterator.seq), label='inv')
