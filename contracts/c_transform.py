"""Contracts for penman/transform.py and the reification part of penman/model.py (C11, C12, C17)."""
from vlib.pyvc.dsl import *


# ---- marker lists ----------------------------------------------------------------------------

@spec
def wf_markers(epis: 'list') -> 'bool':
    """every element is an epigraphical marker object (T10)"""
    return forall_idx(epis, lambda i, e: is_inst(e, 'Epidatum'))


@spec
def last_push(epis: 'list') -> 'val':
    if len(epis) == 0:
        return None
    if is_inst(epis[-1], 'Push'):
        return epis[-1]
    return last_push(epis[:-1])


@spec
def pops_of(epis: 'list') -> 'list':
    if len(epis) == 0:
        return []
    if is_inst(epis[-1], 'Pop'):
        return pops_of(epis[:-1]) + [epis[-1]]
    return pops_of(epis[:-1])


@spec
def role_epis_of(epis: 'list') -> 'list':
    """markers that annotate the role (mode 1), layout markers excluded"""
    if len(epis) == 0:
        return []
    if (not is_inst(epis[-1], 'Push')) and (not is_inst(epis[-1], 'Pop')) and epis[-1].mode == 1:
        return role_epis_of(epis[:-1]) + [epis[-1]]
    return role_epis_of(epis[:-1])


@spec
def other_epis_of(epis: 'list') -> 'list':
    if len(epis) == 0:
        return []
    if (not is_inst(epis[-1], 'Push')) and (not is_inst(epis[-1], 'Pop')) and epis[-1].mode != 1:
        return other_epis_of(epis[:-1]) + [epis[-1]]
    return other_epis_of(epis[:-1])


@contract('penman.transform:_reified_markers')
def _reified_markers(epidata: 'list') -> 'tuple':
    requires(wf_markers(epidata))
    ensures(result == (last_push(epidata), pops_of(epidata), role_epis_of(epidata), other_epis_of(epidata)))
    ensures(result[0] is None or is_inst(result[0], 'Push'), label='push-kind')
    ensures(is_list(result[1]) and is_list(result[2]) and is_list(result[3])
            and wf_markers(result[1]) and wf_markers(result[2]) and wf_markers(result[3]), label='marker-lists')
    invariant(0, lambda: push == last_push(epidata[:_i]) and pops == pops_of(epidata[:_i])
              and role_epis == role_epis_of(epidata[:_i]) and other_epis == other_epis_of(epidata[:_i]))
    invariant(0, lambda: push is None or is_inst(push, 'Push'))
    invariant(0, lambda: is_list(pops) and is_list(role_epis) and is_list(other_epis)
              and wf_markers(pops) and wf_markers(role_epis) and wf_markers(other_epis))


@spec
def as_target_alns(role_epis: 'list') -> 'list':
    """a role alignment of the reified edge becomes the alignment of the new node's concept:
    same indices and the same prefix"""
    if len(role_epis) == 0:
        return []
    if is_inst(role_epis[-1], 'RoleAlignment'):
        return as_target_alns(role_epis[:-1]) + [mk('Alignment', role_epis[-1].indices, role_epis[-1].prefix)]
    return as_target_alns(role_epis[:-1])


@contract('penman.transform:_edge_markers')
def _edge_markers(epidata: 'list') -> 'tuple':
    requires(wf_markers(epidata))
    # markers of the new node: the converted role alignments; markers of the outgoing triple:
    # everything else, then the Push, then the POPs
    ensures(result[0] == as_target_alns(role_epis_of(epidata)))
    ensures(result[1] == other_epis_of(epidata)
            + ([last_push(epidata)] if last_push(epidata) is not None else []) + pops_of(epidata))
    ensures(len(result) == 2)
    invariant(0, lambda: node_epis == as_target_alns(role_epis[:_i]))
    invariant(0, lambda: role_epis == role_epis_of(epidata) and other_epis == other_epis_of(epidata)
              and push == last_push(epidata) and pops == pops_of(epidata))


@contract('penman.transform:_attr_markers')
def _attr_markers(epidata: 'list') -> 'tuple':
    requires(wf_markers(epidata))
    ensures(result == (role_epis_of(epidata), other_epis_of(epidata) + pops_of(epidata)))
    ensures(is_list(result[0]) and is_list(result[1]) and wf_markers(result[0]) and wf_markers(result[1]),
            label='marker-lists')


# ---- canonicalize_roles on trees (C13, tree clause) ------------------------------------------------

@spec
def canon_edge_role(model: 'Model', role: 'str') -> 'str':
    """the role canonicalised, its alignment suffix kept as written"""
    return canon_role(model, role.partition('~')[0]) + role.partition('~')[1] + role.partition('~')[2]


@spec
def canon_branches(bs: 'list', model: 'Model') -> 'list':
    if len(bs) == 0:
        return []
    if is_atomic(bs[-1][1]):
        return canon_branches(bs[:-1], model) + [(canon_edge_role(model, bs[-1][0]), bs[-1][1])]
    return canon_branches(bs[:-1], model) + [(canon_edge_role(model, bs[-1][0]), canon_node(bs[-1][1], model))]


@spec
def canon_node(t: 'val', model: 'Model') -> 'val':
    """same variables, same shape, same targets; every role canonicalised"""
    return (t[0], canon_branches(t[1], model))


@contract('penman.transform:_canonicalize_node')
def _canonicalize_node(node: 'val', model: 'Model') -> 'tuple':
    requires(wf_tnode(node))
    ensures(result == canon_node(node, model))
    invariant(0, lambda: canonical_edges == canon_branches(edges[:_i], model))
    invariant(0, lambda: var == node[0] and edges == node[1])


@contract('penman.transform:canonicalize_roles')
def canonicalize_roles(t: 'Tree', model: 'Model') -> 'Tree':
    requires(wf_tnode(t.node))
    # a new tree: every role canonical, everything else (variables, targets, metadata) as it was
    ensures(result.node == canon_node(t.node, model), label='roles')
    ensures(dict_keys(result.metadata) == dict_keys(t.metadata)
            and forall_idx(dict_keys(t.metadata), lambda i, k: dict_get(result.metadata, k) == dict_get(t.metadata, k)),
            label='metadata')
    ensures(t.node == old(t).node, label='argument-kept')


# ---- indicate_branches, functionally (C12) ------------------------------------------------------------
# (its frame contract is in c_frames.py; this second contract of the same function is the functional one)

@spec
def without_role(ts: 'list', role: 'val') -> 'list':
    """the triples whose role is not *role*, in order"""
    if len(ts) == 0:
        return []
    if ts[-1][1] == role:
        return without_role(ts[:-1], role)
    return without_role(ts[:-1], role) + [ts[-1]]


@contract('penman.transform:indicate_branches@functional')
def indicate_branches_f(g: 'Graph', model: 'Model') -> 'Graph':
    requires(wf_triples(g.triples))
    requires(forall_idx(g.triples, lambda k, t: epis_wf(markers_of(g.epidata, t))))
    requires(dict_wf(g.epidata) and dict_wf(g.metadata))
    requires(is_str(top_role(model)) and top_role(model).startswith(':'))
    # the graph has no top-role triple yet (they are what this transformation adds)
    requires(forall_idx(g.triples, lambda k, t: t[1] != top_role(model) and t[1].startswith(':')))
    raises(AssertionError)     # recorded finding N14 (a Push of the source on a triple whose target is no string)
    # removing the top-role triples gives back the original triples, in order: nothing else is added,
    # dropped or moved
    ensures(without_role(result.triples, top_role(model)) == g.triples, label='only-top-role-triples-added')
    ensures(result._top == g._top if g._top is not None else True, label='top')
    ensures(g.triples == old(g).triples, label='argument-kept')
    invariant(0, lambda: is_list(new_triples) and without_role(new_triples, top_role(model)) == g.triples[:_i])
    invariant(0, lambda: forall_idx(new_triples, lambda k, t: is_tuple(t) and len(t) == 3 and is_str(t[1])
                                    and t[1].startswith(':')))
    invariant(0, lambda: g.triples == old(g).triples)
    use('loop0.step.0', lambda: without_role_snoc(init(new_triples), last(new_triples), top_role(model)))
    use('loop0.step.0', lambda: without_role_snoc(init(init(new_triples)), last(init(new_triples)), top_role(model)))


@lemma
def without_role_snoc(ts: 'list', x: 'val', role: 'val'):
    """one unfolding of without_role"""
    ensures(without_role(ts + [x], role)
            == (without_role(ts, role) if x[1] == role else without_role(ts, role) + [x]))


# ---- reify_attributes, functionally (C12): no attribute is left ---------------------------------------------

@contract('penman.transform:reify_attributes@functional', bounded=True,
          why='99 of its 101 obligations discharge (tools/dbg.py); two invariant steps on the path that reifies an '
              'attribute (sources of processed triples stay sources; marker lists stay marker lists after pop + two '
              'stores) are left unknown by all three solvers, so the contract is executed natively, not claimed as proved')
def reify_attributes_f(g: 'Graph') -> 'Graph':
    requires(wf_triples(g.triples))
    requires(forall_idx(g.triples, lambda k, t: t[1].startswith(':')))          # (roles of a Graph carry their colon)
    requires(forall_idx(g.triples, lambda k, t: epis_wf(markers_of(g.epidata, t))))   # marker lists (T10)
    # every non-instance triple of the result points at a variable of the result: no attribute is left
    ensures(forall_idx(result.triples, lambda j, t: t[1] == ':instance'
                       or is_var(result.triples, result._top, t[2])), label='no-attribute-left')
    ensures(implies(g._top is not None, result._top == g._top), label='top')
    ensures(g.triples == old(g).triples, label='argument-kept')
    # one new node per attribute, each with a variable of its own (judged natively only)
    ensures(len(result.variables()) == len(g.variables()) + len(g.attributes()), label='fresh-variables')
    ensures(len(result.triples) == len(g.triples) + len(g.attributes()), label='one-node-per-attribute')
    # outer loop
    invariant(0, lambda: is_list(new_triples) and forall_idx(new_triples, lambda j, t: is_tuple(t) and len(t) == 3
                                                             and is_str(t[1]) and t[1].startswith(':')))
    invariant(0, lambda: forall_idx(new_triples, lambda j, t: t[1] == ':instance' or t[2] in variables))
    invariant(0, lambda: subset(variables, set_where(lambda x: is_var(g.triples, g._top, x) or is_source(new_triples, x))))
    invariant(0, lambda: subset(set_where(lambda x: is_source(g.triples[:_i], x)),
                                set_where(lambda x: is_source(new_triples, x))))
    invariant(0, lambda: g.triples == old(g).triples and g._top == old(g)._top and is_int(i))
    invariant(0, lambda: forall_idx(g.triples, lambda k, t: epis_wf(markers_of(new_epidata, t))))
    # inner loop (the search for a fresh name)
    invariant(1, lambda: is_str(var) and is_int(i))
