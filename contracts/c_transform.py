"""Contracts for penman/transform.py and the reification part of penman/model.py (C11, C12, C17)."""
from vlib.pyvc.dsl import *


# ---- marker lists ----------------------------------------------------------------------------

@spec
def wf_markers(epis: 'list') -> 'bool':
    """every element is an epigraphical marker object (T10)"""
    return forall_idx(epis, lambda i, e: is_inst(e, 'Epidatum'))


@spec
def last_push(epis: 'list') -> 'val':
    if len(epis) == 0:
        return None
    if is_inst(epis[-1], 'Push'):
        return epis[-1]
    return last_push(epis[:-1])


@spec
def pops_of(epis: 'list') -> 'list':
    if len(epis) == 0:
        return []
    if is_inst(epis[-1], 'Pop'):
        return pops_of(epis[:-1]) + [epis[-1]]
    return pops_of(epis[:-1])


@spec
def role_epis_of(epis: 'list') -> 'list':
    """markers that annotate the role (mode 1), layout markers excluded"""
    if len(epis) == 0:
        return []
    if (not is_inst(epis[-1], 'Push')) and (not is_inst(epis[-1], 'Pop')) and epis[-1].mode == 1:
        return role_epis_of(epis[:-1]) + [epis[-1]]
    return role_epis_of(epis[:-1])


@spec
def other_epis_of(epis: 'list') -> 'list':
    if len(epis) == 0:
        return []
    if (not is_inst(epis[-1], 'Push')) and (not is_inst(epis[-1], 'Pop')) and epis[-1].mode != 1:
        return other_epis_of(epis[:-1]) + [epis[-1]]
    return other_epis_of(epis[:-1])


@contract('penman.transform:_reified_markers')
def _reified_markers(epidata: 'list') -> 'tuple':
    requires(wf_markers(epidata))
    ensures(result == (last_push(epidata), pops_of(epidata), role_epis_of(epidata), other_epis_of(epidata)))
    ensures(result[0] is None or is_inst(result[0], 'Push'), label='push-kind')
    invariant(0, lambda: push == last_push(epidata[:_i]) and pops == pops_of(epidata[:_i])
              and role_epis == role_epis_of(epidata[:_i]) and other_epis == other_epis_of(epidata[:_i]))
    invariant(0, lambda: push is None or is_inst(push, 'Push'))


@spec
def as_target_alns(role_epis: 'list') -> 'list':
    """a role alignment of the reified edge becomes the alignment of the new node's concept:
    same indices and the same prefix"""
    if len(role_epis) == 0:
        return []
    if is_inst(role_epis[-1], 'RoleAlignment'):
        return as_target_alns(role_epis[:-1]) + [mk('Alignment', role_epis[-1].indices, role_epis[-1].prefix)]
    return as_target_alns(role_epis[:-1])


@contract('penman.transform:_edge_markers')
def _edge_markers(epidata: 'list') -> 'tuple':
    requires(wf_markers(epidata))
    # markers of the new node: the converted role alignments; markers of the outgoing triple:
    # everything else, then the Push, then the POPs
    ensures(result[0] == as_target_alns(role_epis_of(epidata)))
    ensures(result[1] == other_epis_of(epidata)
            + ([last_push(epidata)] if last_push(epidata) is not None else []) + pops_of(epidata))
    ensures(len(result) == 2)
    invariant(0, lambda: node_epis == as_target_alns(role_epis[:_i]))
    invariant(0, lambda: role_epis == role_epis_of(epidata) and other_epis == other_epis_of(epidata)
              and push == last_push(epidata) and pops == pops_of(epidata))


@contract('penman.transform:_attr_markers')
def _attr_markers(epidata: 'list') -> 'tuple':
    requires(wf_markers(epidata))
    ensures(result == (role_epis_of(epidata), other_epis_of(epidata) + pops_of(epidata)))


# ---- canonicalize_roles on trees (C13, tree clause) ------------------------------------------------

@spec
def canon_edge_role(model: 'Model', role: 'str') -> 'str':
    """the role canonicalised, its alignment suffix kept as written"""
    return canon_role(model, role.partition('~')[0]) + role.partition('~')[1] + role.partition('~')[2]


@spec
def canon_branches(bs: 'list', model: 'Model') -> 'list':
    if len(bs) == 0:
        return []
    if is_atomic(bs[-1][1]):
        return canon_branches(bs[:-1], model) + [(canon_edge_role(model, bs[-1][0]), bs[-1][1])]
    return canon_branches(bs[:-1], model) + [(canon_edge_role(model, bs[-1][0]), canon_node(bs[-1][1], model))]


@spec
def canon_node(t: 'val', model: 'Model') -> 'val':
    """same variables, same shape, same targets; every role canonicalised"""
    return (t[0], canon_branches(t[1], model))


@contract('penman.transform:_canonicalize_node')
def _canonicalize_node(node: 'val', model: 'Model') -> 'tuple':
    requires(wf_tnode(node))
    ensures(result == canon_node(node, model))
    invariant(0, lambda: canonical_edges == canon_branches(edges[:_i], model))
    invariant(0, lambda: var == node[0] and edges == node[1])


@contract('penman.transform:canonicalize_roles')
def canonicalize_roles(t: 'Tree', model: 'Model') -> 'Tree':
    requires(wf_tnode(t.node))
    # a new tree: every role canonical, everything else (variables, targets, metadata) as it was
    ensures(result.node == canon_node(t.node, model), label='roles')
    ensures(dict_keys(result.metadata) == dict_keys(t.metadata)
            and forall_idx(dict_keys(t.metadata), lambda i, k: dict_get(result.metadata, k) == dict_get(t.metadata, k)),
            label='metadata')
    ensures(t.node == old(t).node, label='argument-kept')
