"""Contracts for penman/_parse.py (C07: the parser fails only with the decode error and always makes progress;
C04/C02: what it returns has the shape the interpreter's precondition asks for)."""
from vlib.pyvc.dsl import *


@spec
def toks(tokens_next: 'val', tokens_rest: 'list') -> 'list':
    """the tokens still to come (abstract view of the token iterator, see c_lexer.py)"""
    return rem(tokens_next, tokens_rest)


@contract('penman._parse:_parse_node')
def _parse_node(tokens: 'TokenIterator') -> 'tuple':
    modifies(tokens)
    requires(ti_ok(tokens._next, tokens._last, tokens.iterator.seq))
    # whatever the tokens are, nothing but the decode error escapes (no IndexError / AttributeError /
    # StopIteration from running off the end of the input)
    raises(DecodeError)
    # a node was read: (variable or None, list of branches), each branch (role, None | text | node)
    ensures(wf_node(result), label='shape')
    ensures(result[0] is None or is_str(result[0]), label='variable')
    # at least '(' and ')' were consumed; what remains is a suffix of what was there
    ensures(len(rem(tokens._next, tokens.iterator.seq)) + 2 <= len(rem(old(tokens)._next, old(tokens).iterator.seq)),
            label='progress')
    ensures(ti_ok(tokens._next, tokens._last, tokens.iterator.seq), label='iterator-ok')
    invariant(0, lambda: ti_ok(tokens._next, tokens._last, tokens.iterator.seq))
    invariant(0, lambda: is_list(edges) and forall_idx(edges, lambda j, b: wf_branch(b)))
    invariant(0, lambda: len(rem(tokens._next, tokens.iterator.seq)) + 2
              <= len(rem(old(tokens)._next, old(tokens).iterator.seq)))
    invariant(0, lambda: is_str(var))


@contract('penman._parse:_parse_edge')
def _parse_edge(tokens: 'TokenIterator') -> 'tuple':
    modifies(tokens)
    requires(ti_ok(tokens._next, tokens._last, tokens.iterator.seq))
    raises(DecodeError)
    ensures(wf_branch(result), label='shape')
    ensures(len(rem(tokens._next, tokens.iterator.seq)) + 1 <= len(rem(old(tokens)._next, old(tokens).iterator.seq)),
            label='progress')
    ensures(ti_ok(tokens._next, tokens._last, tokens.iterator.seq), label='iterator-ok')


@contract('penman._parse:_parse_triple')
def _parse_triple(symbol: 'val', tokens: 'TokenIterator') -> 'tuple':
    modifies(tokens)
    requires(is_token(symbol))
    requires(ti_ok(tokens._next, tokens._last, tokens.iterator.seq))
    raises(DecodeError)
    # (source, target): the source is text, the target is text or missing
    ensures(len(result) == 2 and is_str(result[0]) and (result[1] is None or is_str(result[1])), label='shape')
    ensures(len(rem(tokens._next, tokens.iterator.seq)) <= len(rem(old(tokens)._next, old(tokens).iterator.seq)),
            label='no-token-invented')
    ensures(ti_ok(tokens._next, tokens._last, tokens.iterator.seq), label='iterator-ok')


@contract('penman._parse:_parse_triples')
def _parse_triples(tokens: 'TokenIterator') -> 'list':
    modifies(tokens)
    requires(ti_ok(tokens._next, tokens._last, tokens.iterator.seq))
    raises(DecodeError)
    # a non-empty list of (source, role, target) with textual source, a role carrying its colon and a
    # textual or missing target
    ensures(len(result) >= 1 and forall_idx(result, lambda j, t: is_tuple(t) and len(t) == 3 and is_str(t[0])
                                            and is_str(t[1]) and t[1].startswith(':')
                                            and (t[2] is None or is_str(t[2]))), label='shape')
    ensures(ti_ok(tokens._next, tokens._last, tokens.iterator.seq), label='iterator-ok')
    invariant(0, lambda: ti_ok(tokens._next, tokens._last, tokens.iterator.seq))
    invariant(0, lambda: is_list(triples) and forall_idx(triples, lambda j, t: is_tuple(t) and len(t) == 3 and is_str(t[0])
                                                         and is_str(t[1]) and t[1].startswith(':')
                                                         and (t[2] is None or is_str(t[2]))))
    invariant(0, lambda: is_bool(strip_caret))


@contract('penman._parse:_parse_comments')
def _parse_comments(tokens: 'TokenIterator') -> 'dict':
    modifies(tokens)
    requires(ti_ok(tokens._next, tokens._last, tokens.iterator.seq))
    raises(DecodeError)
    # metadata keys and values are text; the comment tokens are consumed, nothing else
    ensures(forall_keys(result, lambda k: is_str(k) and is_str(dict_get(result, k))), label='text')
    ensures(ti_ok(tokens._next, tokens._last, tokens.iterator.seq), label='iterator-ok')
    ensures(len(rem(tokens._next, tokens.iterator.seq)) <= len(rem(old(tokens)._next, old(tokens).iterator.seq)),
            label='no-token-invented')
    invariant(0, lambda: ti_ok(tokens._next, tokens._last, tokens.iterator.seq))
    invariant(0, lambda: forall_keys(metadata, lambda k: is_str(k) and is_str(dict_get(metadata, k))))
    invariant(0, lambda: len(rem(tokens._next, tokens.iterator.seq)) <= len(rem(old(tokens)._next, old(tokens).iterator.seq)))
    invariant(1, lambda: is_str(comment))
    invariant(1, lambda: forall_keys(metadata, lambda k: is_str(k) and is_str(dict_get(metadata, k))))
    invariant(1, lambda: ti_ok(tokens._next, tokens._last, tokens.iterator.seq))
    invariant(1, lambda: len(rem(tokens._next, tokens.iterator.seq)) <= len(rem(old(tokens)._next, old(tokens).iterator.seq)))


@contract('penman._parse:_parse')
def _parse(tokens: 'TokenIterator') -> 'Tree':
    modifies(tokens)
    requires(ti_ok(tokens._next, tokens._last, tokens.iterator.seq))
    raises(DecodeError)
    # the tree that is handed to the interpreter has the shape its precondition asks for
    ensures(wf_node(result.node), label='shape')
    ensures(forall_keys(result.metadata, lambda k: is_str(k) and is_str(dict_get(result.metadata, k))), label='metadata')
    ensures(ti_ok(tokens._next, tokens._last, tokens.iterator.seq), label='iterator-ok')
