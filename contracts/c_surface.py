"""Contracts for penman/surface.py (C02: alignments are written back as they were read)."""
from vlib.pyvc.dsl import *


# stated on the real class method and executed by the native sweep; int() parsing and classmethods are
# outside the verified subset
@contract('penman.surface:AlignmentMarker.from_string', bounded=True, why='int() parsing, classmethod')
def from_string(s: 'str') -> 'val':
    raises(SurfaceError)
    # an alignment in the documented canonical spelling (optional prefix: a letter, optionally a dot;
    # comma-separated indices without leading zeros) is read so that it is written back as it was:
    # same prefix, same indices in the same order
    ensures(implies(in_re(s, r'~?(?:[a-zA-Z]\.?)?(?:0|[1-9][0-9]*)(?:,(?:0|[1-9][0-9]*))*'),
                    str_of(result) == '~' + s.lstrip('~')), label='written-back-as-read')
    ensures(implies(in_re(s, r'~?(?:[a-zA-Z]\.?)?(?:0|[1-9][0-9]*)(?:,(?:0|[1-9][0-9]*))*'),
                    len(result.indices) == len(s.split(','))), label='one-index-per-item')
