"""Contracts for penman/__main__.py (C16: --check; C20: the command is the library pipeline)."""
from vlib.pyvc.dsl import *


@contract('penman.model:Model.errors')
def model_errors(self: 'Model', graph: 'Graph') -> 'odict':
    option(axiom=True)      # the report itself is specified (and bounded-checked) under C16; here: its shape
    ensures(forall_idx(dict_keys(result), lambda j, k: is_list(dict_get(result, k))
                       and forall_idx(dict_get(result, k), lambda m, msg: is_str(msg))))
    # a context is a triple, or None for errors about the graph as a whole
    ensures(forall_idx(dict_keys(result), lambda j, k: k is None or (is_tuple(k) and len(k) == 3)))


@contract('penman.__main__:_check')
def _check(g: 'Graph', model: 'Model') -> 'int':
    modifies(g)
    # exit status 1 exactly when the model's error report for the graph is non-empty (`errors` is the
    # report, i.e. the function's local holding model.errors(g)) ...
    ensures(result == (1 if len(dict_keys(errors)) > 0 else 0), label='status')
    # ... and every offending context with a message gets its own error-N entry in the graph's metadata
    ensures(forall_idx(dict_keys(errors), lambda j, k: len(dict_get(errors, k)) == 0
                       or dict_has(g.metadata, 'error-' + str_of(j + 1))), label='recorded')
    ensures(g.triples == old(g).triples and g._top == old(g)._top, label='graph-kept')
    invariant(0, lambda: i == _i + 1)
    invariant(0, lambda: forall_idx(dict_keys(errors), lambda j, k: j >= _i or len(dict_get(errors, k)) == 0
                                    or dict_has(g.metadata, 'error-' + str_of(j + 1))))
    invariant(0, lambda: g.triples == old(g).triples and g._top == old(g)._top)
    invariant(1, lambda: _i1 == 0 or dict_has(g.metadata, 'error-' + str_of(i)))
    invariant(1, lambda: i == _i0 + 1)
    invariant(1, lambda: forall_idx(dict_keys(errors), lambda j, k: j >= _i0 or len(dict_get(errors, k)) == 0
                                    or dict_has(g.metadata, 'error-' + str_of(j + 1))))
    invariant(1, lambda: g.triples == old(g).triples and g._top == old(g)._top)


# ---- the per-graph pipeline (C20) -----------------------------------------------------------------
# view='stages': every library stage is an opaque function of its arguments (named by an
# uninterpreted function); what is proved is that _process_in/_process_out apply exactly the
# documented stages, in the documented order, each with the selected model and options.

@spec(uninterpreted=True)
def st_canonicalize(t: 'val', model: 'Model') -> 'val':
    """transform.canonicalize_roles"""


@spec(uninterpreted=True)
def st_interpret(t: 'val', model: 'Model') -> 'val':
    """layout.interpret"""


@spec(uninterpreted=True)
def st_reify_edges(g: 'val', model: 'Model') -> 'val':
    """transform.reify_edges"""


@spec(uninterpreted=True)
def st_dereify_edges(g: 'val', model: 'Model') -> 'val':
    """transform.dereify_edges"""


@spec(uninterpreted=True)
def st_reify_attributes(g: 'val') -> 'val':
    """transform.reify_attributes"""


@spec(uninterpreted=True)
def st_indicate_branches(g: 'val', model: 'Model') -> 'val':
    """transform.indicate_branches"""


@spec(uninterpreted=True)
def st_configure(g: 'val', top: 'val', model: 'Model') -> 'val':
    """layout.configure"""


@spec(uninterpreted=True)
def st_reconfigure(g: 'val', model: 'Model', key: 'val', kwargs: 'val') -> 'val':
    """layout.reconfigure (the top, if any, travels inside the keyword arguments)"""


@spec(uninterpreted=True)
def st_rearrange(t: 'val', key: 'val', kwargs: 'val') -> 'val':
    """layout.rearrange (the tree afterwards)"""


@spec(uninterpreted=True)
def st_reset_variables(t: 'val', fmt: 'val') -> 'val':
    """Tree.reset_variables (the tree afterwards)"""


@contract('penman.transform:canonicalize_roles@stages')
def canonicalize_roles_st(t: 'obj', model: 'Model') -> 'obj':
    option(axiom=True)
    ensures(result.state == st_canonicalize(t.state, model))


@contract('penman.layout:interpret@stages')
def interpret_st(t: 'obj', model: 'Model') -> 'obj':
    option(axiom=True)
    ensures(result.state == st_interpret(t.state, model))


@contract('penman.transform:reify_edges@stages')
def reify_edges_st(g: 'obj', model: 'Model') -> 'obj':
    option(axiom=True)
    ensures(result.state == st_reify_edges(g.state, model))


@contract('penman.transform:dereify_edges@stages')
def dereify_edges_st(g: 'obj', model: 'Model') -> 'obj':
    option(axiom=True)
    ensures(result.state == st_dereify_edges(g.state, model))


@contract('penman.transform:reify_attributes@stages')
def reify_attributes_st(g: 'obj') -> 'obj':
    option(axiom=True)
    ensures(result.state == st_reify_attributes(g.state))


@contract('penman.transform:indicate_branches@stages')
def indicate_branches_st(g: 'obj', model: 'Model') -> 'obj':
    option(axiom=True)
    ensures(result.state == st_indicate_branches(g.state, model))


@contract('penman.layout:configure@stages')
def configure_st(g: 'obj', top: 'val', model: 'Model') -> 'obj':
    option(axiom=True)
    ensures(result.state == st_configure(g.state, top, model))


@contract('penman.layout:reconfigure@stages')
def reconfigure_st(g: 'obj', top: 'val', model: 'Model', key: 'val', __kwargs__: 'val') -> 'obj':
    option(axiom=True)
    ensures(result.state == st_reconfigure(g.state, model, key, __kwargs__))


@contract('penman.layout:rearrange@stages')
def rearrange_st(t: 'obj', key: 'val', attributes_first: 'val', __kwargs__: 'val') -> 'none':
    option(axiom=True)
    modifies(t)
    ensures(t.state == st_rearrange(old(t).state, key, __kwargs__))


@contract('penman.tree:Tree.reset_variables@stages')
def reset_variables_st(self: 'obj', fmt: 'val') -> 'none':
    option(axiom=True)
    modifies(self)
    ensures(self.state == st_reset_variables(old(self).state, fmt))


@spec
def on(options: 'dict', name: 'str') -> 'bool':
    """the option is set (truthy)"""
    return dict_has(options, name) and truthy(dict_get(options, name))


@contract('penman.__main__:_process_in', view='stages')
def _process_in(t: 'obj', model: 'Model', normalize_options: 'dict') -> 'obj':
    requires(dict_has(normalize_options, 'canonicalize_roles') and dict_has(normalize_options, 'reify_edges')
             and dict_has(normalize_options, 'dereify_edges') and dict_has(normalize_options, 'reify_attributes')
             and dict_has(normalize_options, 'indicate_branches'))
    # canonicalise, interpret, reify, dereify, reify attributes, indicate branches -- in this order,
    # each stage only when its option is set, every model-dependent stage with the selected model
    ensures(result.state == pipeline_in(t.state, model, normalize_options))


@spec
def pipeline_in(t: 'val', model: 'Model', o: 'dict') -> 'val':
    return stage_ib(stage_ra(stage_de(stage_re(st_interpret(stage_cr(t, model, o), model), model, o), model, o), o), model, o)


@spec
def stage_cr(t: 'val', model: 'Model', o: 'dict') -> 'val':
    return st_canonicalize(t, model) if on(o, 'canonicalize_roles') else t


@spec
def stage_re(g: 'val', model: 'Model', o: 'dict') -> 'val':
    return st_reify_edges(g, model) if on(o, 'reify_edges') else g


@spec
def stage_de(g: 'val', model: 'Model', o: 'dict') -> 'val':
    return st_dereify_edges(g, model) if on(o, 'dereify_edges') else g


@spec
def stage_ra(g: 'val', o: 'dict') -> 'val':
    return st_reify_attributes(g) if on(o, 'reify_attributes') else g


@spec
def stage_ib(g: 'val', model: 'Model', o: 'dict') -> 'val':
    return st_indicate_branches(g, model) if on(o, 'indicate_branches') else g


@contract('penman.__main__:_process_out', view='stages')
def _process_out(g: 'obj', model: 'Model', normalize_options: 'dict') -> 'obj':
    requires(dict_has(normalize_options, 'reconfigure') and dict_has(normalize_options, 'rearrange')
             and dict_has(normalize_options, 'make_variables'))
    requires(implies(on(normalize_options, 'reconfigure'),
                     is_tuple(dict_get(normalize_options, 'reconfigure')) and len(dict_get(normalize_options, 'reconfigure')) == 2))
    requires(implies(on(normalize_options, 'rearrange'),
                     is_tuple(dict_get(normalize_options, 'rearrange')) and len(dict_get(normalize_options, 'rearrange')) == 2))
    # reconfigure WITH THE MODEL (else configure with the model), then rearrange, then relabel
    ensures(result.state == stage_mv(stage_rr(stage_cf(g.state, model, normalize_options), normalize_options), normalize_options))


@spec
def stage_cf(g: 'val', model: 'Model', o: 'dict') -> 'val':
    if on(o, 'reconfigure'):
        return st_reconfigure(g, model, dict_get(o, 'reconfigure')[0], dict_get(o, 'reconfigure')[1])
    return st_configure(g, None, model)


@spec
def stage_rr(t: 'val', o: 'dict') -> 'val':
    return st_rearrange(t, dict_get(o, 'rearrange')[0], dict_get(o, 'rearrange')[1]) if on(o, 'rearrange') else t


@spec
def stage_mv(t: 'val', o: 'dict') -> 'val':
    return st_reset_variables(t, dict_get(o, 'make_variables')) if on(o, 'make_variables') else t


# ---- _make_sort_key: the user's list of sort methods, in the user's order (C20, C05) ---------------------
# stated on the real function, executed natively (getattr with a computed name and a returned closure are
# outside the verified subset)

@contract('penman.__main__:_make_sort_key', bounded=True, why='getattr(model, computed name), returned closure')
def _make_sort_key(keys: 'list', model: 'Model', key_funcs: 'dict') -> 'tuple':
    requires(all(k in key_funcs for k in keys))
    # the sort key of a role lists the model's answers in the priority order the user gave ...
    ensures(all(result[0](role) == [getattr(model, key_funcs[k])(role) for k in keys
                                    if key_funcs[k] != 'random_order' and hasattr(model, key_funcs[k])]
                for role in [':ARG1-of', ':polarity', ':op10', ':op2', ':mod', ':domain-of', ':ARG0', ':x9', ':x10'])
            or any(key_funcs[k] == 'random_order' for k in keys), label='priority-order')
    # ... and methods that are not questions to the model become keyword switches
    ensures(result[1] == {key_funcs[k]: True for k in keys if not hasattr(model, key_funcs[k])}, label='switches')
