"""Contracts for penman/__main__.py (C16: --check; C20: the command is the library pipeline)."""
from vlib.pyvc.dsl import *


@contract('penman.model:Model.errors')
def model_errors(self: 'Model', graph: 'Graph') -> 'odict':
    option(axiom=True)      # the report itself is specified (and bounded-checked) under C16; here: its shape
    ensures(forall_idx(dict_keys(result), lambda j, k: is_list(dict_get(result, k))
                       and forall_idx(dict_get(result, k), lambda m, msg: is_str(msg))))
    # a context is a triple, or None for errors about the graph as a whole
    ensures(forall_idx(dict_keys(result), lambda j, k: k is None or (is_tuple(k) and len(k) == 3)))


@contract('penman.__main__:_check')
def _check(g: 'Graph', model: 'Model') -> 'int':
    modifies(g)
    # exit status 1 exactly when the model's error report for the graph is non-empty (`errors` is the
    # report, i.e. the function's local holding model.errors(g)) ...
    ensures(result == (1 if len(dict_keys(errors)) > 0 else 0), label='status')
    # ... and every offending context with a message gets its own error-N entry in the graph's metadata
    ensures(forall_idx(dict_keys(errors), lambda j, k: len(dict_get(errors, k)) == 0
                       or dict_has(g.metadata, 'error-' + str_of(j + 1))), label='recorded')
    ensures(g.triples == old(g).triples and g._top == old(g)._top, label='graph-kept')
    invariant(0, lambda: i == _i + 1)
    invariant(0, lambda: forall_idx(dict_keys(errors), lambda j, k: j >= _i or len(dict_get(errors, k)) == 0
                                    or dict_has(g.metadata, 'error-' + str_of(j + 1))))
    invariant(0, lambda: g.triples == old(g).triples and g._top == old(g)._top)
    invariant(1, lambda: _i1 == 0 or dict_has(g.metadata, 'error-' + str_of(i)))
    invariant(1, lambda: i == _i0 + 1)
    invariant(1, lambda: forall_idx(dict_keys(errors), lambda j, k: j >= _i0 or len(dict_get(errors, k)) == 0
                                    or dict_has(g.metadata, 'error-' + str_of(j + 1))))
    invariant(1, lambda: g.triples == old(g).triples and g._top == old(g)._top)
