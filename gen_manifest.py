"""Regenerate MANIFEST.json from vlib/props.py (run by hand after changing the registry)."""
import json, sys
sys.path.insert(0, '.')
from vlib import props
LEVEL_TEXT = {
 'exploration': 'Bounded stand-in only: the property is evaluated on the real code for every input up to the stated bound plus seeded random cases; nothing is proved. ',
 'other': 'Mixed: per-function proof obligations generated from the real source and discharged by SMT solvers decide the clauses named in DESIGN.md; the remaining clauses (those that go through the in-place tree builder behind configure, argparse, file I/O) are decided by a bounded stand-in labelled as such. ',
 'proof': 'Every clause of the property is decided by proof obligations generated from the current source text of the real functions and discharged by SMT solvers for all inputs; the bounded run is only a cross-check of the specification. ',
}
checks = []
for pid, sp in sorted(props.PROPS.items()):
    checks.append({
        'property_id': pid,
        'quick_cmd': './check %s --tier quick' % pid,
        'thorough_cmd': './check %s --tier thorough' % pid,
        'evidence_file': 'evidence/%s.json' % pid,
        'replay_cmd_template': './check %s --replay {path}' % pid,
        'engine': 'pyvc+bounded' if sp['obligations'] else 'bounded',
        'level_claimed': {'category': sp['level'],
                          'text': LEVEL_TEXT[sp['level']] + 'For this property: ' + (sp.get('explanation') or '')
                                  + sp.get('level_text', ''),
                          'design_ref': 'DESIGN.md section 0.3 (as built) and section 4, ' + pid},
        'level_note': sp.get('level_note') or 'Trusted: CPython built-ins and re/json (T1-T6), the SMT solvers and the VC generator (T12); bounded clauses hold only up to the bound. See evidence trusted_base/assumptions.',
        'technique': sp.get('technique') or (
            'contract-based deductive verification of the real code: sidecar contracts on %d functions / lemmas / regex fact '
            'groups, verification conditions generated from the real AST on every run (vlib/pyvc) and discharged by '
            'z3 5.1 / cvc5 / z3 4.8; the same contracts executed natively on the real functions (contract sweep, bounded); '
            'bounded stand-in (executable spec vs. real code up to a stated bound) for the clauses outside deductive reach'
            % len(sp['obligations']) if sp['obligations'] else
            'bounded stand-in of sidecar contracts (deductive obligations not yet attached)'),
    })
m = {
 'version': 1,
 'setup_cmd': 'python3-vt -m compileall -q vlib contracts >/dev/null 2>&1; mkdir -p evidence replays; true',
 'hooks': {'guard': 'PENMAN_VERIF', 'enable': 'none needed: contracts are sidecar files in /verif/contracts; nothing in /repo is instrumented',
           'baseline_off_cmd': 'cd /repo && /venv/bin/python -m pytest -ra -q -p no:cacheprovider --timeout=900 --continue-on-collection-errors',
           'source_commits': [], 'add_only': True},
 'engines': [
   {'name': 'pyvc', 'path': 'vlib/pyvc', 'serves_properties': sorted(p for p, sp in props.PROPS.items() if sp['obligations']),
    'kind_free_text': 'verification-condition generator over the real penman AST (re-read from /repo on every run) with sidecar contracts; obligations discharged by z3 5.1 / cvc5 / z3 4.8'},
   {'name': 'bounded', 'path': 'vlib/bounded', 'serves_properties': sorted(props.PROPS),
    'kind_free_text': 'bounded stand-in: executable specs and contracts evaluated on the real functions for all inputs up to a stated bound + seeded random cases (never counted as proved)'},
   {'name': 'sweep', 'path': 'vlib/pyvc/sweep.py', 'serves_properties': sorted(p for p, sp in props.PROPS.items() if sp['obligations']),
    'kind_free_text': 'native contract sweep: every sidecar contract executed on the real function with generated arguments (dynamic cross-check of contracts and verifier, falsifier for undecided obligations; bounded, never counted as proved)'}],
 'checks': checks,
 'not_applicable': [],
 'notes': 'Exit codes of ./check: 0 held, 1 violation (VIOLATION line), 2 undecided (solver unknown/timeout or code left the verified subset; never reported as a violation), 3 internal error. known_findings.json lists recorded and repaired findings.',
}
json.dump(m, open('MANIFEST.json', 'w'), indent=1)
import jsonschema
jsonschema.validate(m, json.load(open('/root/.vp/MANIFEST.schema.json')))
print('MANIFEST.json written,', len(checks), 'checks')
