"""tools/update_design.py: refresh the generated tables of DESIGN.md (status per property from
evidence/*.json, seeded-change table from seeded/*/meta.json)"""
import glob, json, os, re, subprocess, sys
VERIF = os.path.dirname(os.path.dirname(os.path.abspath(__file__)))


def status():
    rows = ['| id | level | functions / lemmas / facts under contract, all obligations discharged [P] | obligations | solver s | bounded evaluations [B] | sweep calls [S] | open findings seen |',
            '|---|---|---|---|---|---|---|---|']
    for f in sorted(glob.glob(os.path.join(VERIF, 'evidence', 'C*.json'))):
        d = json.load(open(f))
        c = d['coverage']
        fns = c.get('functions_under_contract', [])
        names = []
        for x in fns:
            n = x['name'].split(':')[-1] if not x['name'].startswith('lemma.') else x['name']
            n = n.split(' (')[0]
            if x.get('tier') == 'P':
                names.append(n + (' (frame)' if x.get('contract') == 'frame-only' else ''))
            elif str(x.get('tier', '')).startswith('assumed'):
                names.append(n + ' (assumed boundary)')
            elif str(x.get('tier', '')).startswith('B'):
                names.append(n + ' (bounded contract [S])')
            elif 'thorough tier only' in str(x.get('tier', '')):
                names.append(n + ' (proved in the thorough tier)')
            else:
                names.append(n + ' (UNDECIDED)')
        rows.append('| %s | %s | %s | %s/%s | %s | %s | %s | %s |' % (
            d['property_id'], d['level'], ', '.join(names), c.get('discharged', 0), c.get('obligations', 0),
            round(c.get('solver_seconds', 0)), c.get('evaluations', 0), (c.get('contract_sweep') or {}).get('evaluations', 0),
            ', '.join(sorted(c.get('known_findings_seen', {}))) or '-'))
    return '\n'.join(rows)


def seeds():
    rows = ['| seed | property | change (abridged) | [P] failed obligations | [S] failed contract clauses | [B] failed bounded checks | left undecided | replayed |',
            '|---|---|---|---|---|---|---|---|']
    for d in sorted(glob.glob(os.path.join(VERIF, 'seeded', '*'))):
        try:
            m = json.load(open(os.path.join(d, 'meta.json')))
        except Exception:
            continue
        for prop, r in sorted(m.get('detection', {}).items()):
            cb = r.get('caught_by', [])
            lines = r.get('lines', [])
            sweep_names = set(r.get('caught_by_sweep', []))
            ded = sorted({c.split('=', 1)[1] for c in cb if c.startswith('obligation=')} - sweep_names)
            bnd = sorted({c.split('=', 1)[1] for c in cb if c.startswith('check=')} - {'contract-sweep'})
            rows.append('| %s | %s | %s | %s | %s | %s | %s | %s |' % (
                os.path.basename(d), prop, m.get('summary', '')[:100].replace('|', '/').replace('\n', ' '),
                ', '.join(ded) or '-', ', '.join(sorted(sweep_names)) or '-', ', '.join(bnd) or '-',
                ', '.join(r.get('undecided', [])[:3]) or '-', 'yes' if r.get('reproduced') else 'no'))
    return '\n'.join(rows)


def main():
    p = os.path.join(VERIF, 'DESIGN.md')
    s = open(p).read()
    for tag, text in (('STATUS', status()), ('SEEDTABLE', seeds())):
        a, b = '<!-- %s:BEGIN -->' % tag, '<!-- %s:END -->' % tag
        i, j = s.index(a) + len(a), s.index(b)
        s = s[:i] + '\n' + text + '\n' + s[j:]
    open(p, 'w').write(s)


if __name__ == '__main__':
    main()
