"""Maintenance tool for /verif/seeded (not part of any registered check).

  harvest <worktree> <id>   verify a sub-agent's seeded change in a fresh scratch worktree
                            (tests pass, demo fails with it and passes without) and copy it
                            to /verif/seeded/<id>/
  run [<id> ...]            apply each seeded change to a scratch worktree of /repo HEAD and
                            run ./check for its property against that tree (never /repo)
"""
import json, os, shutil, subprocess, sys, tempfile, time
VERIF = os.path.dirname(os.path.dirname(os.path.abspath(__file__)))
PY = '/venv/bin/python'


def sh(cmd, cwd=None, env=None, timeout=3600):
    r = subprocess.run(cmd, cwd=cwd, env=env, capture_output=True, text=True, timeout=timeout)
    return r.returncode, r.stdout, r.stderr


def scratch():
    d = tempfile.mkdtemp(prefix='verif-seed-', dir='/tmp')
    os.rmdir(d)
    rc, o, e = sh(['git', '-C', '/repo', 'worktree', 'add', '-q', '--detach', d, 'HEAD'])
    assert rc == 0, e
    return d


def drop(d):
    sh(['git', '-C', '/repo', 'worktree', 'remove', '--force', d])
    shutil.rmtree(d, ignore_errors=True)


def verify(patch, demo):
    d = scratch()
    try:
        env = dict(os.environ, PYTHONPATH=d, PYTHONDONTWRITEBYTECODE='1')
        rc0, o0, e0 = sh([PY, demo], cwd=d, env=env)
        rc, o, e = sh(['git', '-C', d, 'apply', patch])
        if rc != 0:
            return {'ok': False, 'why': 'patch does not apply: ' + e[-300:]}
        rct, ot, et = sh([PY, '-m', 'pytest', '-q', '-p', 'no:cacheprovider', '-x'], cwd=d, env=env)
        rc1, o1, e1 = sh([PY, demo], cwd=d, env=env)
        return {'ok': rc0 == 0 and rct == 0 and rc1 != 0,
                'demo_without_change_exit': rc0, 'tests_with_change_exit': rct,
                'tests_tail': ot.strip().split('\n')[-1], 'demo_with_change_exit': rc1,
                'demo_with_change_output': (o1 + e1)[-600:]}
    finally:
        drop(d)


def harvest(wt, sid):
    seed = os.path.join(wt, '_seed')
    meta = json.load(open(os.path.join(seed, 'meta.json')))
    res = verify(os.path.join(seed, 'patch.diff'), os.path.join(seed, 'demo.py'))
    print(sid, json.dumps(res)[:400])
    if not res['ok']:
        return False
    out = os.path.join(VERIF, 'seeded', sid)
    os.makedirs(out, exist_ok=True)
    shutil.copy(os.path.join(seed, 'patch.diff'), out)
    shutil.copy(os.path.join(seed, 'demo.py'), out)
    meta['confirmed'] = {'by': 'tools/seedtool.py harvest in a fresh scratch worktree of /repo HEAD',
                         'repo_head': sh(['git', '-C', '/repo', 'rev-parse', '--short', 'HEAD'])[1].strip(),
                         'what_was_run': 'demo.py on the unchanged tree (exit 0), git apply patch.diff, the 93 tests (pass), demo.py (exit 1)',
                         **res}
    json.dump(meta, open(os.path.join(out, 'meta.json'), 'w'), indent=1)
    return True


def run(ids, props=None, tier='quick'):
    base = os.path.join(VERIF, 'seeded')
    ids = ids or sorted(os.listdir(base))
    summary = {}
    for sid in ids:
        sd = os.path.join(base, sid)
        if not os.path.exists(os.path.join(sd, 'patch.diff')):
            continue
        meta = json.load(open(os.path.join(sd, 'meta.json')))
        d = scratch()
        try:
            rc, o, e = sh(['git', '-C', d, 'apply', os.path.join(sd, 'patch.diff')])
            if rc != 0:
                summary[sid] = 'PATCH-FAILS'
                continue
            res = {}
            for prop in (props or [meta['property']]):
                t = time.time()
                rc, o, e = sh([os.path.join(VERIF, 'check'), prop, '--tier', tier, '--repo', d, '--no-evidence'],
                              cwd=VERIF, timeout=7200)
                lines = [l for l in o.split('\n') if l.startswith(('VIOLATION', 'UNDECIDED', 'ERROR', 'KNOWN'))]
                import re as _re
                names = sorted({m.group(1) + '=' + m.group(2).split('#')[0] for l in lines if l.startswith('VIOLATION')
                                and 'check=contract-sweep' not in l
                                for m in [_re.search(r'\b(check|obligation)=(\S+)', l)] if m})
                swept = sorted({m.group(1).split('#')[0] for l in lines if l.startswith('VIOLATION')
                                and 'check=contract-sweep' in l for m in [_re.search(r'\bobligation=(\S+)', l)] if m})
                open_ = sorted({m.group(1).split('#')[0] for l in lines if l.startswith('UNDECIDED')
                                for m in [_re.search(r'\bobligation=(\S+)', l)] if m})
                res[prop] = {'exit': rc, 'wall_s': round(time.time() - t, 1), 'caught_by': names, 'caught_by_sweep': swept, 'undecided': open_,
                             'reproduced': any(l.startswith('VIOLATION') and 'no-failing-input-found' not in l for l in lines),
                             'lines': [l.replace(d, '<tree>')[:300] for l in lines[:6]], 'stderr': e[-300:] if rc == 3 else ''}
            meta['detection'] = res
            json.dump(meta, open(os.path.join(sd, 'meta.json'), 'w'), indent=1)
            summary[sid] = {p: r['exit'] for p, r in res.items()}
            print(sid, summary[sid], flush=True)
        finally:
            drop(d)
    return summary


if __name__ == '__main__':
    if sys.argv[1] == 'harvest':
        sys.exit(0 if harvest(sys.argv[2], sys.argv[3]) else 1)
    if sys.argv[1] == 'run':
        args = sys.argv[2:]
        props = None
        if '--props' in args:
            i = args.index('--props')
            props = args[i + 1].split(',')
            args = args[:i] + args[i + 2:]
        run(args, props)
