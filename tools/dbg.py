"""debug helper: tools/dbg.py <contract key or lemma:name> [--timeout N] [--dump]"""
import sys, os, time
sys.path.insert(0, os.path.dirname(os.path.dirname(os.path.abspath(__file__))))
from vlib.pyvc import run, calls, solve
import z3
args = sys.argv[1:]
timeout = 20
if '--timeout' in args:
    i = args.index('--timeout'); timeout = int(args[i + 1]); args = args[:i] + args[i + 2:]
repo = '/repo'
if '--repo' in args:
    i = args.index('--repo'); repo = args[i + 1]; args = args[:i] + args[i + 2:]
dump = '--dump' in args
args = [a for a in args if a != '--dump']
eng = run.build(repo)
os.makedirs('/tmp/spike/dbg', exist_ok=True)
for key in args:
    t0 = time.time()
    if key.startswith('lemma:'):
        c = eng.sidecar.lemmas[key.split(':', 1)[1]]
    else:
        c = eng.sidecar.contracts[key]
    r = calls.verify_function(eng, key, c)
    print(key, r.status, r.reason, 'paths', r.paths, 'infeasible', r.infeasible, 'obligations', len(r.obligations), 'gen %.1fs' % (time.time() - t0))
    plain, groups = run.apply_induction(eng, [(key, o) for o in r.obligations if not o.name.split('#')[0].endswith('post.define')])
    obs = list(plain)
    for g in groups:
        cl = g.closure_obligations()
        rc = solve.discharge_all(cl, 10)
        for o, x in zip(cl, rc):
            print('  %-70s %-8s %-8s %6.2f' % (o.name, x['verdict'], x['by'], x['seconds']))
        obs.extend((g.key, o) for o in g.induction_obligations([x['verdict'] == 'unsat' for x in rc]))
    res = solve.discharge_all([o for _, o in obs], timeout)
    for (k, o), x in zip(obs, res):
        flag = '' if x['verdict'] == 'unsat' else '   <<<<<<'
        print('  %-70s %-8s %-8s %6.2f %s%s' % (o.name, x['verdict'], x['by'], x['seconds'], x['detail'], flag))
        if x['verdict'] != 'unsat' or dump:
            fn = '/tmp/spike/dbg/' + o.name.replace('/', '_').replace(':', '_') + '.smt2'
            open(fn, 'w').write(solve.smt2_of(o.pc, o.goal))
