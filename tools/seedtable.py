"""tools/seedtable.py: markdown table of which checks catch which seeded change (from seeded/*/meta.json)"""
import json, os, glob
rows = []
for d in sorted(glob.glob(os.path.join(os.path.dirname(os.path.dirname(os.path.abspath(__file__))), 'seeded', '*'))):
    try:
        m = json.load(open(os.path.join(d, 'meta.json')))
    except Exception:
        continue
    for prop, r in sorted(m.get('detection', {}).items()):
        cb = r.get('caught_by', [])
        ded = [c.split('=', 1)[1] for c in cb if c.startswith('obligation=')]
        bnd = [c.split('=', 1)[1] for c in cb if c.startswith('check=')]
        rows.append((os.path.basename(d), prop, m.get('summary', '')[:110].replace('|', '/'),
                     ', '.join(ded) or '-', ', '.join(bnd) or '-', ', '.join(r.get('undecided', [])[:3]) or '-',
                     'yes' if r.get('reproduced') else 'no', r.get('exit')))
print('| seed | property | change (abridged) | failed obligations [P] | failed bounded checks [B] | obligations left undecided | replayed natively | exit |')
print('|---|---|---|---|---|---|---|---|')
for r in rows:
    print('| ' + ' | '.join(str(x) for x in r) + ' |')
