"""tools/seedpv.py <seed id> <prop>...: run the deductive tier only against a seeded change"""
import sys, os, subprocess, tempfile, shutil
sys.path.insert(0, os.path.dirname(os.path.dirname(os.path.abspath(__file__))))
sid = sys.argv[1]
d = tempfile.mkdtemp(prefix='verif-seedpv-', dir='/tmp'); os.rmdir(d)
subprocess.run(['git', '-C', '/repo', 'worktree', 'add', '-q', '--detach', d, 'HEAD'], check=True)
try:
    subprocess.run(['git', '-C', d, 'apply', os.path.join('/verif/seeded', sid, 'patch.diff')], check=True)
    from vlib.pyvc import run
    for prop in sys.argv[2:]:
        res = run.run_property(prop, 'quick', d, 0, {})
        print(sid, prop, 'obligations', res['obligations'], 'discharged', res['discharged'], 'wall', res['wall_s'])
        for v in res['violations']:
            print('  VIOLATION', v['name'], v['suffix'], '|', v['detail'][:500])
        for u in res['undecided']:
            print('  UNDECIDED', u['name'], u['reason'][:200])
finally:
    subprocess.run(['git', '-C', '/repo', 'worktree', 'remove', '--force', d])
    shutil.rmtree(d, ignore_errors=True)
