"""tools/mut.py <file under penman/> <old> <new> -- <prop or keys...>: apply a textual change to a
scratch worktree of /repo HEAD and run the deductive tier there (development aid)."""
import sys, os, subprocess, tempfile, shutil, json
sys.path.insert(0, os.path.dirname(os.path.dirname(os.path.abspath(__file__))))
i = sys.argv.index('--')
f, old, new = sys.argv[1:i]
targets = sys.argv[i + 1:]
d = tempfile.mkdtemp(prefix='verif-mut-', dir='/tmp'); os.rmdir(d)
subprocess.run(['git', '-C', '/repo', 'worktree', 'add', '-q', '--detach', d, 'HEAD'], check=True)
try:
    p = os.path.join(d, 'penman', f)
    s = open(p).read()
    assert s.count(old) == 1, s.count(old)
    open(p, 'w').write(s.replace(old, new))
    r = subprocess.run(['/venv/bin/python', '-m', 'pytest', '-q', '-x', '-p', 'no:cacheprovider'], cwd=d, capture_output=True, text=True,
                       env=dict(os.environ, PYTHONPATH=d))
    print('tests:', r.stdout.strip().split('\n')[-1])
    from vlib.pyvc import run
    for prop in targets:
        res = run.run_property(prop, 'quick', d, 0, {})
        print(prop, 'obligations', res['obligations'], 'discharged', res['discharged'], 'wall', res['wall_s'])
        for v in res['violations']:
            print('  VIOLATION', v['name'], v['suffix'], '|', v['detail'][:400])
        for u in res['undecided']:
            print('  UNDECIDED', u['name'], u['reason'][:200])
finally:
    subprocess.run(['git', '-C', '/repo', 'worktree', 'remove', '--force', d])
    shutil.rmtree(d, ignore_errors=True)
