"""Bounded drivers for the text-level properties C01, C07, C08, C09, C18, C19."""
import io
import itertools
import os
import re
import tempfile

import penman
from penman import constant
from penman._lexer import lex, PENMAN_RE, TRIPLE_RE
from penman.exceptions import DecodeError, ConstantError
from penman.tree import Tree

from .base import check, classifier, get_model
from . import specs, gens


def real_tokens(src, triple=False):
    rx = TRIPLE_RE if triple else PENMAN_RE
    return [(t.type, t.text, t.lineno, t.offset) for t in lex(src, pattern=rx)]


# =============================== C08 =========================================

@check('C08.lex')
def c08_lex(args):
    s, triple, container = args['s'], args['triple'], args.get('container', 'str')
    if container == 'str':
        real = real_tokens(s, triple)
        spec = specs.lexspec(s, triple)
        lines = specs.split_universal(s)
    else:
        lines = s.split('\n')
        real = real_tokens(lines, triple)
        spec = specs.lexspec_lines(lines, triple)
    if real != spec:
        return 'tokens differ: real=%r spec=%r' % (real[:6], spec[:6])
    # tiling: in order, non-overlapping, text = covered span, everything else
    # is an ASCII blank
    pos = {}
    for ty, tx, ln, off in real:
        if not (1 <= ln <= len(lines)):
            return 'line number out of range'
        line = lines[ln - 1]
        if line[off:off + len(tx)] != tx:
            return 'token text is not the span it claims'
        lo = pos.get(ln, 0)
        if off < lo:
            return 'tokens overlap or are out of order'
        if any(c not in specs.BLANKS for c in line[lo:off]):
            return 'non-blank character skipped'
        pos[ln] = off + len(tx)
    for i, line in enumerate(lines, 1):
        if any(c not in specs.BLANKS for c in line[pos.get(i, 0):]):
            return 'non-blank tail skipped'
    return None


@classifier('C08.lex')
def c08_cls(args, detail):
    s = args['s']
    # N9: a quoted string containing VT, FF or CR is one STRING token although
    # the documented StrChar excludes them
    if '"' in s and any(c in s for c in '\x0b\x0c\r'):
        return 'N9'
    return None


def run_C08(R):
    alpha = '()/:~"\\#aE1,. \n\r\t\x0b\x0c\xa0　 \x85'
    n = 3 if R.quick else 4
    for k in range(0, n + 1):
        for tup in itertools.product(alpha, repeat=k):
            s = ''.join(tup)
            for triple in (False, True):
                R.check('C08.lex', {'s': s, 'triple': triple}, nontrivial=k > 0)
    # list-of-lines container and longer seeded strings
    for _ in range(3000 if R.quick else 40000):
        k = R.rnd.randint(4, 12)
        s = ''.join(R.rnd.choice(alpha + 'ab~1e.') for _ in range(k))
        R.check('C08.lex', {'s': s, 'triple': R.rnd.random() < 0.3})
        if '\r' not in s and '"' not in s:
            R.check('C08.lex', {'s': s, 'triple': False, 'container': 'lines'})
    for s in ['(a / b~E.1)', '(a / b~e.1,2 :r~A1 c~3)', 'x~a.1', '~1,2,3', '~e.',
              '"a\\"b" c', '"\\\\" d', ':a:b', '# c (a / b)', '(a :r "x # y")']:
        for triple in (False, True):
            R.check('C08.lex', {'s': s, 'triple': triple})


# =============================== C07 =========================================

def spec_parse(kind, s):
    toks = specs.lexspec(s, triple=(kind == 'triples'))
    rec = specs.Recogniser(toks)
    try:
        if kind == 'parse':
            return ('ok', rec.graph()[1])
        if kind == 'iterparse':
            return ('ok', [n for _, n in rec.graphs()])
        return ('ok', rec.triples())
    except specs.Err as e:
        return ('err', e.lineno, e.offset)


def real_parse(kind, s):
    try:
        if kind == 'parse':
            return ('ok', penman.parse(s).node)
        if kind == 'iterparse':
            return ('ok', [t.node for t in penman.iterparse(s)])
        return ('ok', penman.parse_triples(s))
    except DecodeError as e:
        return ('err', e.lineno, e.offset)
    except RecursionError:
        return ('EXC', 'RecursionError')
    except Exception as e:
        return ('EXC', type(e).__name__, str(e)[:80])


@check('C07.parse')
def c07_parse(args):
    s, kind = args['s'], args['kind']
    exp = spec_parse(kind, s)
    got = real_parse(kind, s)
    if got != exp:
        return 'real=%r spec=%r' % (got, exp)
    return None


@classifier('C07.parse')
def c07_cls(args, detail):
    s = args['s']
    if '"' in s and any(c in s for c in '\x0b\x0c\r'):
        return 'N9'
    return None


@check('C07.tokens')
def c07_tokens(args):
    """Token-level: the real parser on a token stream vs the recogniser."""
    from penman._lexer import Token, TokenIterator
    from penman import _parse
    toks = [tuple(t) for t in args['toks']]
    kind = args['kind']
    rec = specs.Recogniser(toks)
    try:
        exp = ('ok', rec.graph()[1]) if kind == 'parse' else ('ok', rec.triples())
    except specs.Err as e:
        exp = ('err', e.lineno, e.offset)
    it = TokenIterator(iter([Token(ty, tx, ln, off, '') for ty, tx, ln, off in toks]))
    try:
        if kind == 'parse':
            got = ('ok', _parse._parse(it).node)
        else:
            got = ('ok', _parse._parse_triples(it))
    except DecodeError as e:
        got = ('err', e.lineno, e.offset)
    except Exception as e:
        got = ('EXC', type(e).__name__)
    if got != exp:
        return 'real=%r spec=%r' % (got, exp)
    return None


def run_C07(R):
    alpha = '()/:~"\\#,^.-a1 \n'
    n = 4 if R.quick else 5
    for k in range(0, n + 1):
        for tup in itertools.product(alpha, repeat=k):
            s = ''.join(tup)
            R.check('C07.parse', {'s': s, 'kind': 'parse'}, nontrivial=k > 0)
            if k <= n - 1:
                R.check('C07.parse', {'s': s, 'kind': 'iterparse'})
                R.check('C07.parse', {'s': s, 'kind': 'triples'})
    # token sequences
    TK = [('LPAREN', '('), ('RPAREN', ')'), ('SLASH', '/'), ('ROLE', ':r'),
          ('ROLE', ':'), ('SYMBOL', 'a'), ('STRING', '"s"'), ('ALIGNMENT', '~1'),
          ('COMMENT', '# ::k v'), ('UNEXPECTED', '"')]
    m = 5 if R.quick else 6
    for k in range(0, m + 1):
        for tup in itertools.product(TK, repeat=k):
            if k == m and R.rnd.random() > (0.08 if R.quick else 0.3):
                continue
            toks = []
            off = 0
            for ty, tx in tup:
                toks.append((ty, tx, 1, off))
                off += len(tx) + 1
            R.check('C07.tokens', {'toks': toks, 'kind': 'parse'}, nontrivial=k > 0)
    TT = [('LPAREN', '('), ('RPAREN', ')'), ('SYMBOL', 'a'), ('SYMBOL', 'a,b'),
          ('SYMBOL', 'a,'), ('SYMBOL', ','), ('SYMBOL', ',b'), ('SYMBOL', '^'),
          ('SYMBOL', '^r'), ('STRING', '"s"'), ('UNEXPECTED', ':')]
    m2 = 5 if R.quick else 6
    for k in range(0, m2 + 1):
        for tup in itertools.product(TT, repeat=k):
            if k >= 5 and R.rnd.random() > (0.05 if R.quick else 0.25):
                continue
            toks = []
            off = 0
            for ty, tx in tup:
                toks.append((ty, tx, 1, off))
                off += len(tx) + 1
            R.check('C07.tokens', {'toks': toks, 'kind': 'triples'}, nontrivial=k > 0)
    # structured mutations of valid texts, nesting, unicode
    seeds = ['(a / b :c (d / e) :f "g h" :i-of j~1)', '# ::id 1\n(a / b)\n(c)',
             '(a :r (b :r (c :r (d))))', 'instance(a, b) ^ ARG0(a, c)',
             '(a / "x\\"y" :r~e.1 b~2)', '()', '(a /)', '(a :r)', '(a : b)',
             'r(a ,b)^q(c , d)', 'r(a b)', 'r(a,)', 'r(a)']
    for _ in range(2000 if R.quick else 30000):
        s = R.rnd.choice(seeds)
        for _ in range(R.rnd.randint(1, 3)):
            i = R.rnd.randrange(len(s) + 1)
            op = R.rnd.random()
            if op < 0.4 and s:
                s = s[:i] + s[i + 1:]
            elif op < 0.8:
                s = s[:i] + R.rnd.choice(alpha + ' é\xa0\t') + s[i:]
            else:
                j = R.rnd.randrange(len(s) + 1)
                s = s[:min(i, j)] + s[max(i, j):]
        for kind in ('parse', 'iterparse', 'triples'):
            R.check('C07.parse', {'s': s, 'kind': kind})
    for depth in (50, 199, 200):
        s = '(a :r ' * depth + '(z)' + ')' * depth
        R.check('C07.parse', {'s': s, 'kind': 'parse'})
        R.check('C07.parse', {'s': s[:-3], 'kind': 'parse'})
        R.check('C07.parse', {'s': s + ')', 'kind': 'iterparse'})


# =============================== C01 =========================================

def toks_nocomment(s):
    return [(t.type, t.text) for t in lex(s) if t.type != 'COMMENT']


def lex_stable_tree(node):
    """Domain of C01 for assembled trees: every variable, role and atom is read
    back by the documented lexer as exactly the intended token(s)."""
    v, bs = node
    if v is None:
        return bs == []
    if not _one(v, ('SYMBOL',)):
        return False
    for r, t in bs:
        if r == '/':
            pass
        elif not _one(r, ('ROLE',), align=True):
            return False
        if isinstance(t, tuple):
            if not lex_stable_tree(t):
                return False
        elif t is not None:
            if not isinstance(t, str) or not _one(t, ('SYMBOL', 'STRING'), align=True):
                return False
    return True


def _one(text, types, align=False):
    tk = specs.lexspec_line(text, 1)
    if len(tk) == 1:
        return tk[0][0] in types and tk[0][1] == text
    if align and len(tk) == 2:
        return (tk[0][0] in types and tk[1][0] == 'ALIGNMENT'
                and tk[0][1] + tk[1][1] == text)
    return False


def meta_ok(meta):
    """The class of metadata maps for which format->parse is the identity."""
    for k, v in meta.items():
        if k == '' or ' ' in k or '::' in k or k.startswith(':') or k.endswith(':'):
            return False
        if any(c in k for c in '\n\r') or any(c in v for c in '\n\r'):
            return False
        if '::' in v or v != v.rstrip() or v.startswith(':') and False:
            return False
        if v.startswith(' '):
            return False
        if ':' + v == v:
            return False
    return True


@check('C01.roundtrip')
def c01_roundtrip(args):
    node = args['node']
    meta = args.get('meta') or {}
    if not lex_stable_tree(node) or not meta_ok(meta):
        return 'SKIP'
    t = Tree(node, metadata=dict(meta))
    ref = None
    for indent in args.get('indents', (None, -1, 0, 1, 3, 7)):
        for compact in (False, True):
            try:
                s = penman.format(t, indent=indent, compact=compact)
                t2 = penman.parse(s)
            except Exception as e:
                return 'raised %s at indent=%r compact=%r' % (type(e).__name__, indent, compact)
            if t2.node != t.node:
                return 'tree differs at indent=%r compact=%r: %r' % (indent, compact, s[:120])
            if t2.metadata != t.metadata:
                return 'metadata differs: %r' % (t2.metadata,)
            tk = toks_nocomment(s)
            if ref is None:
                ref = tk
            elif tk != ref:
                return 'tokens differ across options at indent=%r compact=%r' % (indent, compact)
            if penman.format(penman.parse(s), indent=indent, compact=compact) != s:
                return 'formatted text is not a fixed point at indent=%r compact=%r' % (indent, compact)
            # the codec's methods and the iterating reader are the same functions under other names
            from penman.codec import PENMANCodec
            codec = PENMANCodec()
            if codec.format(t, indent=indent, compact=compact) != s:
                return 'PENMANCodec.format differs from penman.format at indent=%r compact=%r' % (indent, compact)
            for name, rd in (('PENMANCodec.parse', codec.parse),
                             ('iterparse', lambda x: list(penman.iterparse(x))[0]),
                             ('PENMANCodec.iterparse', lambda x: list(codec.iterparse(x))[0])):
                try:
                    t3 = rd(s)
                except Exception as e:
                    return '%s raised %s at indent=%r compact=%r' % (name, type(e).__name__, indent, compact)
                if t3.node != t.node or t3.metadata != t.metadata:
                    return '%s reads a different tree at indent=%r compact=%r' % (name, indent, compact)
    return None


@check('C01.fixedpoint')
def c01_fixed(args):
    s = args['s']
    try:
        t = penman.parse(s)
    except DecodeError:
        return 'SKIP'
    for indent in (-1, None, 2):
        for compact in (False, True):
            y = penman.format(t, indent=indent, compact=compact)
            t2 = penman.parse(y)
            if t2.node != t.node or t2.metadata != t.metadata:
                return 'parse(format(parse(s))) != parse(s) at indent=%r compact=%r' % (indent, compact)
            if penman.format(t2, indent=indent, compact=compact) != y:
                return 'not a fixed point at indent=%r' % (indent,)
    return None


@classifier('C01.fixedpoint')
def c01_fx_cls(args, detail):
    s = args['s']
    if '"' in s and any(c in s for c in '\x0b\x0c\r'):
        return 'N9'
    return None


C01_ATOMS = ['k', '"s"', '"a (b) / :c ~1 # \\" \\\\ x"', '1.5', '-', 'b~e.1',
             '"q"~2,3', 'a', 'x~1', None, '0', '"~"', '"a~1"~2']
C01_ROLES = [':R', ':R-of', ':', ':R~1', ':op1~e.2', ':x.y', ':~3']
C01_CONC = [None, 'x', '"c d"', 'x~1', 'a', 'MISSING']
C01_METAS = [{}, {'snt': 'hello world'}, {'id': '1', 'snt': 'a ; ( ) " # b'},
             {'k': ''}, {'k': 'a b\xa0c'}, {'k': 'a\x85b'}, {'k': 'v:'},
             {'k': 'a : b'}, {'k#': '#'}, {'k': ':v'}, {'a': '1', 'b': '2', 'c': ''}]


C01_STRCH = [' ', '  ', '\t', 'a', '(', ')', '#', ':', '~', '/', '\\"', '\\\\', '\xe9', '\xa0', '\u2028', '\x85', '\x1c', ';', '^']


def c01_rand_string(rnd):
    """a string atom over the whole of the grammar's string characters: blanks of every kind that does
    not end a line (runs of spaces, tabs, no-break and other Unicode spaces), delimiters, escapes"""
    return '"' + ''.join(rnd.choice(C01_STRCH) for _ in range(rnd.randint(0, 6))) + '"'


def c01_rand_meta(rnd):
    meta = {}
    for key in rnd.sample(['snt', 'id', 'tok', 'k#'], rnd.randint(1, 3)):
        words = [rnd.choice(['w', '(', ')', '"', '#', ';', 'x:y', '~1', '\xa0', 'a\u2028b', '\x1c']) for _ in range(rnd.randint(0, 4))]
        meta[key] = ''.join(w + rnd.choice([' ', '  ', '\t', ' \t ']) for w in words).strip(' \t')
    return meta


def c01_gen(rnd, depth, counter):
    v = 'v%d' % counter[0]
    counter[0] += 1
    bs = []
    c = rnd.choice(C01_CONC)
    if c == 'MISSING':
        bs.append(('/', None))
    elif c is not None:
        bs.append(('/', c))
    for _ in range(rnd.randint(0, 3)):
        r = rnd.choice(C01_ROLES)
        if depth < 4 and rnd.random() < 0.4:
            bs.append((r, c01_gen(rnd, depth + 1, counter)))
        elif rnd.random() < 0.05:
            bs.append((r, (None, [])))
        elif rnd.random() < 0.15:
            bs.append((r, c01_rand_string(rnd) + rnd.choice(['', '', '~e.1'])))
        else:
            bs.append((r, rnd.choice(C01_ATOMS)))
    return (v, bs)


def run_C01(R):
    n = 0
    for node in gens.corpus(R, 1500 if R.quick else 30000,
                            dict(concepts=(None, 'x', '"c d"~1'), roles=(':R', ':', ':R~1'),
                                 atoms=('k', '"s (/) ~1"', 'b~e.1', None)), thorough_extra=False):
        R.check('C01.roundtrip', {'node': node, 'meta': {},
                                  'indents': (None, -1, 0, 2) if R.quick else (None, -1, 0, 1, 2, 3, 7)})
    for it in range(600 if R.quick else 8000):
        node = c01_gen(R.rnd, 0, [0])
        meta = R.rnd.choice(C01_METAS) if R.rnd.random() < 0.6 else c01_rand_meta(R.rnd)
        R.check('C01.roundtrip', {'node': node, 'meta': meta})
    R.check('C01.roundtrip', {'node': (None, []), 'meta': {}})
    alpha = '()/:~"\\#a1 \n'
    nmax = 4 if R.quick else 5
    for k in range(2, nmax + 1):
        for tup in itertools.product(alpha, repeat=k):
            s = ''.join(tup)
            if s[0] not in '(#':
                continue
            R.check('C01.fixedpoint', {'s': s})
    for s in ['# ::snt a b\n(a / b)', '# ::id 1 ::snt x y\n# ::k\n(a / b :c d)',
              '(a / b~1 :r~2 (c / d) :s "x # (y)"~3 :t)', '(a :r :s b)', '(a /)',
              '# x\n(a)']:
        R.check('C01.fixedpoint', {'s': s})


# =============================== C09 =========================================

C09_SRC = ['(a / x :R (b / y :R (c / z :S a)) :T c :A 1)',
           '(a :R (b :S-of (c / z)) :R-of (d / w :Q b))',
           '(a / x~1 :ARG0~2 (b / y) :mod "s (t) ; #"~3 :ARG1-of (c / z :ARG0 b))',
           '(a / x)', '(a :R (b :R a))', '(a / "q\xa0r" :R 0)']
C09_METAS = [{}, {'snt': 'hello ; ( ) " # world'},
             {'id': '1', 'snt': 'foo bar baz\x85q', 'k': ''},
             {'snt': 'a b'}, {'snt': 'x\x0by\x0cz\x1cw'}]


def gsig(g):
    return (g.top, g.triples,
            {k: [repr(e) for e in v] for k, v in g.epidata.items()}, g.metadata)


@check('C09.containers')
def c09_containers(args):
    model = get_model(args.get('model', 'default'))
    gs = []
    for src, meta in args['graphs']:
        g = penman.decode(src, model=model)
        g.metadata = dict(meta)
        gs.append(g)
    indent = args['indent']
    text = penman.dumps(gs, model=model, indent=indent)
    ref = [gsig(g) for g in gs]
    variants = {
        'str': lambda: penman.loads(text, model=model),
        'lines': lambda: list(penman.iterdecode(text.split('\n'), model=model)),
        'lines+nl': lambda: list(penman.iterdecode([l + '\n' for l in text.split('\n')], model=model)),
        # the other two line terminators, kept on the lines / in the stream (a file opened with newline='')
        'lines+crlf': lambda: list(penman.iterdecode([l + '\r\n' for l in text.split('\n')], model=model)),
        'lines+cr': lambda: list(penman.iterdecode([l + '\r' for l in text.split('\n')], model=model)),
        'str+crlf': lambda: penman.loads(text.replace('\n', '\r\n'), model=model),
        'stringio+crlf': lambda: penman.load(io.StringIO(text.replace('\n', '\r\n'), newline=''), model=model),
        'stringio': lambda: penman.load(io.StringIO(text), model=model),
    }

    def viafile():
        d = tempfile.mkdtemp(prefix='verif-c09-')
        p = os.path.join(d, 'f.txt')
        try:
            penman.dump(gs, p, model=model, indent=indent, encoding='utf-8')
            return penman.load(p, model=model, encoding='utf-8')
        finally:
            if os.path.exists(p):
                os.remove(p)
            os.rmdir(d)
    variants['file'] = viafile

    def viastream():
        f = io.StringIO()
        penman.dump(gs, f, model=model, indent=indent)
        f.seek(0)
        return penman.load(f, model=model)
    variants['dumpstream'] = viastream
    for name, f in variants.items():
        try:
            got = [gsig(g) for g in f()]
        except Exception as e:
            return 'container %s raised %s' % (name, type(e).__name__)
        if got != ref:
            return 'container %s gives different graphs' % name
    if gs:
        # other framings of the same graphs: a blank, a line break of any kind, or nothing between them
        # (a later graph's first metadata comment then starts on the line the previous graph ends on)
        for sep in (' ', '\n', '', '\n\n', '\r\n', '\r'):
            t2 = sep.join(penman.encode(g, model=model, indent=indent) for g in gs)
            try:
                if [gsig(g) for g in penman.loads(t2, model=model)] != ref:
                    return 'separator %r changes the graphs' % sep
            except Exception as e:
                return 'separator %r raised %s' % (sep, type(e).__name__)
    return None


@check('C09.newlines')
def c09_newlines(args):
    """str input and file input agree on what ends a line."""
    text = args['text']
    try:
        a = [gsig(g) for g in penman.loads(text)]
    except DecodeError as e:
        a = ('err',)
    try:
        b = [gsig(g) for g in penman.load(io.StringIO(text, newline=None))]
    except DecodeError as e:
        b = ('err',)
    if a != b:
        return 'loads and load disagree'
    return None


C09_WORDS = ['(', ')', '((', ':(', ':-)', '"', '#', '/', '~e.1', 'w', '^', ',', ';', ':r', '(a', 'b)', '\\', "'"]
C09_STRCH = ['(', ')', ' ', '#', ':', 'a', '\\"', ';', '/', '~', '\\\\', '::']


def c09_random_graph(rnd):
    """metadata values and string atoms made of the notation's own delimiters, in no particular
    arrangement (nothing balanced, nothing paired)"""
    meta = {}
    for key in rnd.sample(['snt', 'id', 'tok', 'note'], rnd.randint(1, 3)):
        meta[key] = ' '.join(rnd.choice(C09_WORDS) for _ in range(rnd.randint(0, 4)))
    q = '"' + ''.join(rnd.choice(C09_STRCH) for _ in range(rnd.randint(0, 5))) + '"'
    src = rnd.choice(['(a / x :R %s :S (b / y))', '(a / %s)', '(a / x :R (b / y :S %s) :T b)']) % q
    return src, meta


def run_C09(R):
    for it in range(250 if R.quick else 4000):
        gs = [(R.rnd.choice(C09_SRC), R.rnd.choice(C09_METAS)) if R.rnd.random() < 0.5 else c09_random_graph(R.rnd)
              for _ in range(R.rnd.randint(0, 3))]
        R.check('C09.containers', {'graphs': gs, 'indent': R.rnd.choice([-1, None, 0, 2]),
                                   'model': R.rnd.choice(['default', 'amr'])},
                nontrivial=bool(gs))
    seps = ['\n', '\r\n', '\r', ' ', '\x85', '\x0b', '\x0c', '\x1c', '\x1d', '\x1e', ' ']
    for nl in seps:
        for tmpl in ('# ::id 1{0}(a / b){0}{0}(c / d){0}', '# ::snt foo{0}bar\n(a / b)',
                     '(a / b{0} :r c)', '(a / "x{0}y")', '# ::snt x\n(a / b) {0} (c / d)'):
            R.check('C09.newlines', {'text': tmpl.format(nl)})


# =============================== C18 =========================================

JSONNUM = re.compile(r'-?(?:0|[1-9][0-9]*)(?:\.[0-9]+)?(?:[eE][+-]?[0-9]+)?\Z')


@check('C18.quote')
def c18_quote(args):
    s = args['s']
    q = constant.quote(s)
    toks = [(t.type, t.text) for t in lex(q)]
    if toks != [('STRING', q)]:
        return 'quote(%r)=%r is not one STRING token: %r' % (s, q, toks[:4])
    toks2 = [(t.type, t.text) for t in lex('(a / ' + q + ' :r ' + q + '~1)')]
    if toks2 != [('LPAREN', '('), ('SYMBOL', 'a'), ('SLASH', '/'), ('STRING', q),
                 ('ROLE', ':r'), ('STRING', q), ('ALIGNMENT', '~1'), ('RPAREN', ')')]:
        return 'quote(%r) is not atomic in context' % (s,)
    if constant.evaluate(q) != s:
        return 'evaluate(quote(%r)) = %r' % (s, constant.evaluate(q))
    if constant.type(q) != constant.STRING:
        return 'type(quote(%r)) = %r' % (s, constant.type(q))
    return None


@check('C18.quote_other')
def c18_quote_other(args):
    x = args['x']
    exp = '""' if x is None else constant.quote(str(x))
    if constant.quote(x) != exp:
        return 'quote(%r) = %r, expected %r' % (x, constant.quote(x), exp)
    return None


@check('C18.evaluate')
def c18_evaluate(args):
    s = args['s']
    if s is not None and not s.startswith('"') and any(c in s for c in ' \t\n\r'):
        return 'SKIP'   # an atom text never contains an ASCII blank (C08)
    try:
        v = constant.evaluate(s)
    except ConstantError:
        try:
            constant.type(s)
            return 'evaluate raised ConstantError but type did not'
        except ConstantError:
            return None
    except RecursionError:
        return 'evaluate raised RecursionError'
    except Exception as e:
        return 'evaluate raised %s' % type(e).__name__
    if isinstance(v, bool) or (isinstance(v, float) and v != v) or isinstance(v, (list, dict)):
        return 'bad value %r' % (v,)
    if v is not None and not isinstance(v, (str, int, float)):
        return 'bad value type %s' % type(v).__name__
    if isinstance(v, (int, float)) and not (s is not None and JSONNUM.match(s)):
        return 'number %r from non-JSON-number text %r' % (v, s)
    if (v is None) != (s is None or s == ''):
        return 'None iff empty violated: %r -> %r' % (s, v)
    ty = constant.type(s)
    want = {str: (constant.SYMBOL, constant.STRING), int: (constant.INTEGER,),
            float: (constant.FLOAT,), type(None): (constant.NULL,)}[type(v)]
    if ty not in want:
        return 'type %r does not match value %r' % (ty, v)
    if isinstance(v, str):
        is_q = s.startswith('"') and s.endswith('"')
        if (ty == constant.STRING) != is_q:
            return 'STRING iff quoted violated for %r' % (s,)
    return None


@classifier('C18.evaluate')
def c18_cls(args, detail):
    s = args['s']
    if isinstance(s, str) and (len(s) > 4000 or s.count('[') + s.count('{') > 500):
        return 'N3'
    return None


def run_C18(R):
    alph = 'a"\\\n\t\x00é ;()~#:/\x7f퟿ \x85\r\x0b'
    n = 3 if R.quick else 4
    for k in range(0, n + 1):
        for tup in itertools.product(alph, repeat=k):
            R.check('C18.quote', {'s': ''.join(tup)}, nontrivial=k > 0)
    for _ in range(500 if R.quick else 5000):
        s = ''.join(chr(R.rnd.choice([R.rnd.randrange(0, 128), R.rnd.randrange(128, 0x3000),
                                      R.rnd.randrange(0x10000, 0x10ffff)]))
                    for _ in range(R.rnd.randint(1, 40)))
        s = s.encode('utf-8', 'surrogatepass').decode('utf-8', 'replace')
        R.check('C18.quote', {'s': s})
    for x in (1, 1.5, None, 0, -2, 0.0, 1e100, -0.0, True, 10**30):
        R.check('C18.quote_other', {'x': x})
    at = '01-+.eE"aN\\'
    m = 4 if R.quick else 5
    for k in range(0, m + 1):
        for tup in itertools.product(at, repeat=k):
            R.check('C18.evaluate', {'s': ''.join(tup)}, nontrivial=k > 0)
    for s in [None, '', '""', 'true', 'false', 'null', 'NaN', 'Infinity', '-Infinity',
              '[1]', '{"a":1}', '[]', '{}', '"a" "b"', '1 2', ' 1', '1 ', '\t1', '1e5',
              '1E+5', '1.0e-5', '01', '-01', '1.', '.5', '-', '+1', '0x10', '1_000',
              '"\\u00e9"', '"\\ud800"', '"a\\', '\\"', '"', '1' * 5000, '[' * 100000,
              '-' + '9' * 4400, '1e400', '-1e400', '"' + 'x' * 10000 + '"']:
        R.check('C18.evaluate', {'s': s})


# =============================== C19 =========================================

C19_SYMS = ['a', 'b1', 'x-y', '"q r"', '"a, (b) ^c"', '12', '-', '"\\"q\\""', '1.5', '1,000', 'a,b',
            '"^"', '""', '"a,b"', 'x.y', 'é']
C19_ROLES = [':instance', ':ARG0', ':op1', ':mod-of', ':x.y', ':A']
# roles that contain the conjunction sign itself (leading, doubled, interior, trailing), several of them
# a caret away from a role the spacing variants use ("x ^a(..)" against the role ":^a")
C19_CARET_ROLES = [':^a', ':^', ':^^b', ':b^', ':^ARG1', ':^instance', ':a^b', ':^mod', ':^op2']


@check('C19.roundtrip')
def c19_roundtrip(args):
    ts = [tuple(t) for t in args['triples']]
    # every public way of writing / reading a conjunction: the module functions and the codec's methods
    from penman.codec import PENMANCodec
    codec = PENMANCodec()
    writers = (('penman.format_triples', penman.format_triples), ('PENMANCodec.format_triples', codec.format_triples))
    readers = (('penman.parse_triples', penman.parse_triples), ('PENMANCodec.parse_triples', codec.parse_triples))
    for ind in (True, False):
        for wname, w in writers:
            s = w(list(ts), indent=ind)
            for rname, rd in readers:
                try:
                    back = rd(s)
                except Exception as e:
                    return '%s raised %s on %r' % (rname, type(e).__name__, s[:80])
                if back != ts:
                    return 'round trip differs (%s, %s, indent=%r): %r -> %r' % (wname, rname, ind, s[:80], back[:3])
    return None


@check('C19.spacing')
def c19_spacing(args):
    s = args['s']
    exp = [tuple(t) for t in args['expect']]
    try:
        r = penman.parse_triples(s)
    except Exception as e:
        return 'raised %s' % type(e).__name__
    if r != exp:
        return 'got %r' % (r,)
    return None


def run_C19(R):
    for it in range(1500 if R.quick else 20000):
        ts = [(R.rnd.choice(['a', 'b1', 'x-y', 'é']), R.rnd.choice(C19_ROLES),
               R.rnd.choice(C19_SYMS)) for _ in range(R.rnd.randint(1, 4))]
        if R.rnd.random() < 0.3:
            ts.insert(R.rnd.randint(0, len(ts)), R.rnd.choice(ts))     # a conjunct written twice
        R.check('C19.roundtrip', {'triples': ts})
    for src in C09_SRC:
        g = penman.decode(src)
        ts = [(s, r, t) for s, r, t in g.triples if t is not None]
        R.check('C19.roundtrip', {'triples': ts})
    for tgt, txt in (('b', 'b'), ('"q, r"', '"q, r"'), ('"(^)"', '"(^)"'), ('1,000', '1,000'), ('x,y,z', 'x,y,z')):
        for variant in ['instance(a,%s)', 'instance(a, %s)', 'instance(a ,%s)', 'instance(a , %s)']:
            if txt.startswith('"') and variant in ('instance(a,%s)', 'instance(a ,%s)'):
                pass  # still documented variants: the string follows the comma directly
            for conj in ['%s^%s', '%s ^%s', '%s ^ %s', '%s^ %s', '%s ^\n%s']:
                s = conj % (variant % txt, 'ARG0(a,c)')
                R.check('C19.spacing', {'s': s, 'expect': [('a', ':instance', tgt), ('a', ':ARG0', 'c')]})


def run_C19_mixed(R):
    """the documented spacing variants mixed within one conjunction: every conjunction sign and every comma
    of a text of 2-5 triples takes its variant independently"""
    conjs = ['^', ' ^', ' ^ ', '^ ', ' ^\n', '\n^ ']
    commas = [',', ', ', ' ,', ' , ']
    for it in range(600 if R.quick else 8000):
        n = R.rnd.randint(2, 5)
        ts = [(R.rnd.choice(['a', 'b1', 'x-y']), R.rnd.choice(['ARG1', 'instance', 'mod', 'op2', 'a']),
               R.rnd.choice(['c', 'd2', '"q, r"', '-1.5', '"(^)"'])) for _ in range(n)]
        parts = ['%s(%s%s%s)' % (r, s_, R.rnd.choice(commas), t) for s_, r, t in ts]
        text = parts[0]
        for p in parts[1:]:
            text += R.rnd.choice(conjs) + p
        R.check('C19.spacing', {'s': text, 'expect': [(s_, ':' + r, t) for s_, r, t in ts]})


_run_C19_base = run_C19


def run_C19_carets(R, n):
    for it in range(n):
        ts = [(R.rnd.choice(['a', 'b1', 'x-y']), R.rnd.choice(C19_CARET_ROLES if R.rnd.random() < 0.6 else C19_ROLES),
               R.rnd.choice(C19_SYMS)) for _ in range(R.rnd.randint(1, 4))]
        R.check('C19.roundtrip', {'triples': ts})


def run_C19(R):
    # caret roles before and after the spacing variants: all in one process, so a reading that depends on
    # what was read earlier (in either order) shows
    run_C19_carets(R, 300 if R.quick else 4000)
    _run_C19_base(R)
    run_C19_mixed(R)
    run_C19_carets(R, 300 if R.quick else 4000)


RUNNERS = {'C01': run_C01, 'C07': run_C07, 'C08': run_C08, 'C09': run_C09,
           'C18': run_C18, 'C19': run_C19}
