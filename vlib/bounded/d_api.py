"""Bounded drivers for C17 (purity, determinism) and C20 (CLI = pipeline)."""
import copy
import itertools
import json
import os
import subprocess
import sys
import tempfile

import penman
from penman import layout, transform
from penman.graph import Graph
from penman.model import Model
from penman.tree import Tree

from .base import check, classifier, get_model
from . import gens
from .d_model import cli_run

SRC = ['(a / x :R (b / y :R (c / z :S a)) :T c :A 1)',
       '(a :R (b :S-of (c / z)) :R-of (d / w :Q b))',
       '(a / x~1 :ARG0~2 (b / y) :mod "s (t) ; #"~3 :ARG1-of (c / z :ARG0 b))',
       '(a / x)', '(a :R (b :R a))',
       '(c / chapter :mod 7 :domain-of (d / dog :location (p / park)) :ARG1-of (m / have-mod-91 :ARG2 (e / e)))',
       '(a / alpha :op10 k :op2 j :ARG1-of (b / beta) :consist-of-of (g / gamma) :polarity -)',
       '(a / alpha~1 :ARG1-of~2 (_ / have-mod-91~3 :ARG2 7~4) :mod~5 (b / beta~6) :location (c / c :ARG0-of b))',
       '(a / x :ARG1-of (m / have-mod-91~e.2 :ARG2~e.3 (b / y)) :quant 1~e.4)',
       # roles and concepts for which the AMR model defines several alternatives (table order decides)
       '(a / alpha :poss (b / beta) :beneficiary (g / gamma) :ARG1-of (i / include-91 :ARG2 (s / set)) '
       ':ARG0-of (h / have-org-role-91 :ARG2 (r / role)))',
       # roles whose inversion status differs between models (AMR defines :consist-of, :prep-out-of as roles)
       '(a / alpha :mod (m / mu) :consist-of (b / beta) :ARG0 (c / gamma) :prep-out-of (d / delta :prep-on-behalf-of a))']


def snap(x):
    # the marker map is compared as a map (dict equality ignores key order)
    return repr((getattr(x, '_top', None), getattr(x, 'triples', None),
                 sorted(((k, [repr(e) for e in v]) for k, v in getattr(x, 'epidata', {}).items()), key=repr),
                 getattr(x, 'metadata', None), getattr(x, 'node', None)))


def val(r):
    if hasattr(r, 'triples') or hasattr(r, 'node'):
        return snap(r)
    if isinstance(r, set):
        return repr(sorted(r, key=repr))
    return repr(r)


def calls(amr, M=None, suffix=''):
    """the call table; with M=None the transformations use *amr* and the sort key comes from the default
    model; `all_calls` adds the same calls with the two models swapped, so that calls on shared arguments
    with different models are interleaved within one process"""
    M = M or get_model('default')
    tab = _calls(amr, M)
    return {k + suffix: v for k, v in tab.items()}


def all_calls(amr):
    tab = calls(amr)
    tab.update(calls(get_model('default'), amr, '@swapped'))
    return tab


def _calls(amr, M):
    return {
        'configure': lambda g, t: layout.configure(g),
        'configure_top': lambda g, t: layout.configure(g, top=sorted(g.variables())[-1]),
        'reconfigure': lambda g, t: layout.reconfigure(g, key=M.canonical_order),
        'reconfigure_model': lambda g, t: layout.reconfigure(g, model=M, key=M.canonical_order),
        'rearrange': lambda g, t: (lambda t2: (layout.rearrange(t2, key=M.canonical_order), t2)[1])(copy.deepcopy(t)),
        'sort_keys': lambda g, t: [(M.canonical_order(r), M.alphanumeric_order(r), M.is_role_inverted(r))
                                   for _, r, _ in g.triples],
        'reconfigure_nokey': lambda g, t: layout.reconfigure(g, top=sorted(g.variables())[0]),
        'encode': lambda g, t: penman.encode(g, compact=True),
        'encode_top': lambda g, t: penman.encode(g, top=sorted(g.variables())[-1], indent=None),
        'interpret': lambda g, t: layout.interpret(t),
        'format': lambda g, t: penman.format(t),
        'format_triples': lambda g, t: penman.format_triples(g.triples),
        'reify_edges': lambda g, t: transform.reify_edges(g, amr),
        'dereify_edges': lambda g, t: transform.dereify_edges(g, amr),
        'reify_attributes': lambda g, t: transform.reify_attributes(g),
        'indicate_branches': lambda g, t: transform.indicate_branches(g, amr),
        'canonicalize_roles': lambda g, t: transform.canonicalize_roles(t, amr),
        'or': lambda g, t: g | penman.decode('(a / x :Z (q / r))'),
        'sub': lambda g, t: g - penman.decode('(a / x :R (b / y))'),
        'errors': lambda g, t: amr.errors(g),
        'node_contexts': lambda g, t: layout.node_contexts(g),
        'appears_inverted': lambda g, t: [layout.appears_inverted(g, x) for x in g.triples],
        'pushed': lambda g, t: [layout.get_pushed_variable(g, x) for x in g.triples],
        'queries': lambda g, t: (g.instances(), g.edges(), g.attributes(), g.reentrancies(),
                                 sorted(g.variables()), g.top),
        'alignments': lambda g, t: (penman.surface.alignments(g), penman.surface.role_alignments(g)),
        'nodes': lambda g, t: t.nodes(),
    }


@check('C17.pure')
def c17_pure(args):
    amr = get_model('amr')
    src, names = args['src'], args['calls']
    cs0 = all_calls(amr)

    def guarded(name):
        # with the models swapped a call may be refused (no reification table): the refusal is its result
        f = cs0[name]
        if '@' not in name:
            return f

        def h(g, t):
            try:
                return f(g, t)
            except Exception as e:
                return 'EXC ' + type(e).__name__
        return h
    cs = {name: guarded(name) for name in cs0}
    g = penman.decode(src, model=amr)
    t = penman.parse(src)
    if args.get('strip'):
        g.epidata = {}
    if args.get('implicit_top') and g.triples and g._top == g.triples[0][0]:
        g._top = None          # a hand-built graph: the top is the first triple's source, not stored
    b = (snap(g), snap(t))
    results = {}
    for name in names:
        f = cs[name]
        try:
            r1 = f(g, t)
        except Exception as e:
            return '%s raised %s' % (name, type(e).__name__)
        if (snap(g), snap(t)) != b:
            return 'argument changed by %s' % name
        r2 = f(g, t)
        if val(r1) != val(r2):
            return '%s: different results on repeated calls' % name
        if name in results and results[name] != val(r1):
            return '%s: result depends on interleaved calls' % name
        results[name] = val(r1)
    # equal arguments (a deep copy, a pickle round trip) give equal results
    import pickle
    for how, cp in (('deepcopy', copy.deepcopy), ('pickle', lambda x: pickle.loads(pickle.dumps(x)))):
        gc, tc = cp(g), cp(t)
        for name in names:
            try:
                if val(cs[name](gc, tc)) != results[name]:
                    return '%s: result differs on a %s of the same arguments' % (name, how)
            except Exception as e:
                return '%s raised %s on a %s of the arguments' % (name, type(e).__name__, how)
    # same calls in reverse order on fresh copies give the same results
    g2 = penman.decode(src, model=amr)
    t2 = penman.parse(src)
    if args.get('strip'):
        g2.epidata = {}
    if args.get('implicit_top') and g2.triples and g2._top == g2.triples[0][0]:
        g2._top = None
    for name in reversed(names):
        if val(cs[name](g2, t2)) != results[name]:
            return '%s: result depends on call order' % name
    return None


HASHSEED_SCRIPT = r'''
import sys, json
sys.path.insert(0, {verif!r})
from vlib.bounded import d_api, base
import penman
amr = base.get_model('amr')
cs = d_api.all_calls(amr)
out = {{}}
order = {order!r}
items = list(cs.items())
srcs = list(enumerate(d_api.SRC))
if order == 'reversed':
    items.reverse(); srcs.reverse()
elif order == 'swapped-first':
    items.sort(key=lambda kv: ('@' not in kv[0], kv[0]))
for i, src in srcs:
    for name, f in items:
        g = penman.decode(src, model=amr); t = penman.parse(src)
        try:
            out['%d:%s' % (i, name)] = d_api.val(f(g, t))
        except Exception as e:
            out['%d:%s' % (i, name)] = 'EXC ' + type(e).__name__
print(json.dumps(out, sort_keys=True))
'''


@check('C17.hashseed')
def c17_hashseed(args):
    verif = os.path.dirname(os.path.dirname(os.path.dirname(os.path.abspath(__file__))))
    outs = []
    # each worker process makes the same calls in a different order (and under a different hash
    # seed): a result that depends on what was called before it differs between workers
    orders = ['forward', 'reversed', 'swapped-first']
    for n, seed in enumerate(args['seeds']):
        script = HASHSEED_SCRIPT.format(verif=verif, order=orders[n % len(orders)])
        env = dict(os.environ, PYTHONHASHSEED=str(seed),
                   PYTHONPATH=os.environ.get('VERIF_REPO', '/repo'))
        r = subprocess.run([sys.executable, '-c', script], capture_output=True, text=True, env=env, timeout=300)
        if r.returncode != 0:
            return 'worker failed: %s' % r.stderr[-200:]
        outs.append(json.loads(r.stdout))
    for o in outs[1:]:
        for k in o:
            if o[k] != outs[0][k]:
                return 'result of %s differs across hash seeds / processes / call orders' % k
    return None


CLI_TEXT = '\n\n'.join(('# ::id %d\n' % i) + s for i, s in enumerate(SRC)) + '\n'


@check('C17.cli_hashseed')
def c17_cli_hashseed(args):
    outs = []
    for seed in args['seeds']:
        env = dict(os.environ, PYTHONHASHSEED=str(seed),
                   PYTHONPATH=os.environ.get('VERIF_REPO', '/repo'))
        r = subprocess.run([sys.executable, '-m', 'penman'] + args['argv'], input=CLI_TEXT,
                           capture_output=True, text=True, env=env, timeout=300)
        outs.append((r.returncode, r.stdout))
    if any(o != outs[0] for o in outs):
        return 'command output differs across hash seeds for %r' % (args['argv'],)
    return None


def run_C17(R):
    names = list(all_calls(get_model('amr')))
    for src in SRC:
        for strip in (False, True):
            R.check('C17.pure', {'src': src, 'calls': names, 'strip': strip})
            R.check('C17.pure', {'src': src, 'calls': names, 'strip': strip, 'implicit_top': True})
            for _ in range(3 if R.quick else 30):
                seq = [R.rnd.choice(names) for _ in range(R.rnd.randint(2, 8))]
                R.check('C17.pure', {'src': src, 'calls': seq, 'strip': strip})
    for it in range(40 if R.quick else 600):
        node = gens.random_tree(R.rnd, maxn=8, maxd=4)
        try:
            src = penman.format(Tree(node), indent=None)
        except Exception:
            continue
        R.check('C17.pure', {'src': src, 'calls': [R.rnd.choice(names) for _ in range(6)]})
    R.check('C17.hashseed', {'seeds': [0, 1, 2] if R.quick else [0, 1, 2, 12345, 'random', 7]})
    grid = [[], ['--amr', '--reify-edges'], ['--amr', '--dereify-edges', '--reify-attributes'],
            ['--amr', '--canonicalize-roles', '--rearrange', 'canonical'],
            ['--reconfigure', 'canonical'], ['--amr', '--check'], ['--make-variables', 'v{i}'],
            ['--amr', '--indicate-branches', '--triples']]
    for argv in (grid[:4] if R.quick else grid):
        R.check('C17.cli_hashseed', {'argv': argv, 'seeds': [0, 1] if R.quick else [0, 1, 2, 99]})


# =============================== C20 =========================================

FLAGS = {'canon': ['--canonicalize-roles'], 'reify': ['--reify-edges'],
         'dereify': ['--dereify-edges'], 'attrs': ['--reify-attributes'],
         'branches': ['--indicate-branches'], 'reconf': ['--reconfigure', 'canonical'],
         'rearr': ['--rearrange', 'canonical'], 'vars': ['--make-variables', '{prefix}{j}'],
         'rearr_af': ['--rearrange', 'attributes-first'],
         # several sort methods: the order in which the user lists them is their priority
         'rearr_ia': ['--rearrange', 'inverted-last,alphanumeric'],
         'rearr_ai': ['--rearrange', 'alphanumeric,inverted-last']}
MODELS = {'default': [], 'amr': ['--amr'], 'noop': ['--noop']}
FORMATS = {'std': ({'indent': -1}, []), 'no': ({'indent': None}, ['--indent', 'no']),
           'i3c': ({'indent': 3, 'compact': True}, ['--indent', '3', '--compact']),
           'i0': ({'indent': 0}, ['--indent', '0']), 'c': ({'indent': -1, 'compact': True}, ['--compact'])}


def pipeline(text, model, opts, fmt):
    out = []
    for t in penman.iterparse(text):
        if 'canon' in opts:
            t = transform.canonicalize_roles(t, model)
        g = layout.interpret(t, model)
        if 'reify' in opts:
            g = transform.reify_edges(g, model)
        if 'dereify' in opts:
            g = transform.dereify_edges(g, model)
        if 'attrs' in opts:
            g = transform.reify_attributes(g)
        if 'branches' in opts:
            g = transform.indicate_branches(g, model)
        if 'triples' in opts:
            out.append(penman.format_triples(g.triples, indent=bool(fmt.get('indent', True))))
            continue
        if 'reconf' in opts:
            t = layout.reconfigure(g, model=model, key=lambda role: [model.canonical_order(role)])
            g = layout.interpret(t, model)
        else:
            t = layout.configure(g, model=model)
        if 'rearr' in opts:
            layout.rearrange(t, key=lambda role: [model.canonical_order(role)])
        elif 'rearr_af' in opts:
            layout.rearrange(t, key=lambda role: [], attributes_first=True)
        elif 'rearr_ia' in opts:
            layout.rearrange(t, key=lambda role: [model.is_role_inverted(role), model.alphanumeric_order(role)])
        elif 'rearr_ai' in opts:
            layout.rearrange(t, key=lambda role: [model.alphanumeric_order(role), model.is_role_inverted(role)])
        if 'vars' in opts:
            t.reset_variables('{prefix}{j}')
        out.append(penman.format(t, indent=fmt.get('indent', -1), compact=fmt.get('compact', False)))
    return '\n\n'.join(out) + ('\n' if out else '')


def gsig(g):
    return (g.top, g.triples, {k: [repr(e) for e in v] for k, v in g.epidata.items()}, g.metadata)


@check('C20.cli')
def c20_cli(args):
    on = args['on']
    mname = args['model']
    fmtname = args['fmt']
    model = get_model(mname if mname != 'file' else 'miniamr')
    fmt, fargs = FORMATS[fmtname]
    texts = args['texts']
    d = tempfile.mkdtemp(prefix='verif-c20-')
    try:
        margs = list(MODELS.get(mname, []))
        if mname == 'file':
            from .base import MINI_AMR
            mp = os.path.join(d, 'model.json')
            with open(mp, 'w') as f:
                json.dump(MINI_AMR, f)
            margs = ['--model', mp]
        argv = margs + fargs + [a for f in on if f in FLAGS for a in FLAGS[f]]
        if 'triples' in on:
            argv.append('--triples')
        try:
            exp = ''
            parts = [pipeline(t, model, set(on), fmt) for t in texts]
            if args['via'] == 'stdin':
                exp = parts[0]
            else:
                exp = ''.join(parts)
        except Exception as e:
            return 'SKIP'
        if args['via'] == 'stdin':
            rc, out, err = cli_run(argv, texts[0], d)
        else:
            paths = []
            for i, t in enumerate(texts):
                p = os.path.join(d, 'in%d.txt' % i)
                with open(p, 'w', encoding='utf-8') as f:
                    f.write(t)
                paths.append(p)
            rc, out, err = cli_run(argv + paths, None, d)
        if rc != 0:
            return 'exit status %d: %s' % (rc, err[-120:])
        if out != exp:
            return 'command output differs from the library pipeline for %r' % (argv,)
        if 'reconf' not in on and 'branches' not in on and 'triples' not in on:
            rc2, out2, _ = cli_run(margs + fargs + [a for f in on for a in FLAGS[f]], out, d)
            if out2 != out:
                return 'output is not reproduced byte for byte for %r' % (argv,)
        if not on:
            # the clause speaks of well-formed input: every variable defined once, no duplicate triples,
            # roles in canonical inversion form under the model in use (':consist-of-of' is not, under a
            # model that does not define ':consist-of')
            from . import gens as _gens
            for t in (texts[:1] if args['via'] == 'stdin' else texts):
                for tr in penman.iterparse(t):
                    if not _gens.wf_tree(tr.node, model, noop=(args.get('model') == 'noop')):
                        return None
            gs_in = [gsig(g) for t in (texts[:1] if args['via'] == 'stdin' else texts)
                     for g in penman.iterdecode(t, model=model)]
            gs_out = [gsig(g) for g in penman.iterdecode(out, model=model)]
            if gs_in != gs_out:
                return 'plain run does not decode to the same graphs'
        return None
    finally:
        for p in os.listdir(d):
            os.remove(os.path.join(d, p))
        os.rmdir(d)


@classifier('C20.cli')
def c20_cls(args, detail):
    # N10: the outputs of consecutive input FILEs are not separated by a blank
    # line, so the concatenated output is re-formatted when fed back
    if ('byte for byte' in detail and args['via'] == 'files'
            and sum(1 for t in args['texts'] if t.strip()) >= 2):
        return 'N10'
    return None


def run_C20(R):
    texts_pool = []
    third = len(SRC) // 2
    texts_pool.append('\n\n'.join(('# ::id %d\n# ::snt s %d ; x\n' % (i, i)) + s for i, s in enumerate(SRC[:third])) + '\n')
    texts_pool.append('\n'.join(SRC[third:]) + '\n')
    texts_pool.append('')
    flags = [f for f in FLAGS if not f.startswith('rearr_')] + ['triples']
    n = 28 if R.quick else 700
    # pairwise-ish covering sample: every flag alone, every pair (thorough), random subsets
    subsets = [[]] + [[f] for f in flags]
    if not R.quick:
        subsets += [list(c) for c in itertools.combinations(flags, 2)]
    while len(subsets) < n:
        subsets.append([f for f in flags if R.rnd.random() < 0.35])
    for i, on in enumerate(subsets[:n]):
        mname = ['default', 'amr', 'noop', 'file'][i % 4] if not R.quick else R.rnd.choice(['default', 'amr', 'amr', 'noop', 'file'])
        fmtname = R.rnd.choice(list(FORMATS))
        via = R.rnd.choice(['stdin', 'file', 'files'])
        texts = [texts_pool[0]] if via != 'files' else [texts_pool[0], texts_pool[2], texts_pool[1]]
        if via == 'stdin' and R.rnd.random() < 0.3:
            texts = [texts_pool[1]]
        R.check('C20.cli', {'on': on, 'model': mname, 'fmt': fmtname, 'via': via, 'texts': texts})
    # constants spelled like generated variable names, attributes-first, relabelling
    tricky = ('(x0 / plan :ARG1-of (x1 / back-01) :mod b :quant p)\n\n'
              '(w / want-01 :ARG0 (b / boy) :polarity - :mod w2 :ARG1 (g / go-02 :ARG0 b))\n')
    for on in (['rearr_af'], ['vars'], ['vars', 'rearr_af'], ['vars', 'rearr'], ['rearr_af', 'reify'],
               ['vars', 'rearr_af', 'canon'], ['rearr_ia'], ['rearr_ai'], ['rearr_ia', 'canon']):
        for mname in ('default', 'amr'):
            R.check('C20.cli', {'on': on, 'model': mname, 'fmt': R.rnd.choice(list(FORMATS)), 'via': 'stdin',
                                'texts': [tricky]})
    # roles inverted more than once, among them roles the model normalises (canonicalisation has to reach
    # its fixed point in one pass for the output to be a normal form)
    over = ('(a / alpha :mod-of-of-of (b / beta) :domain-of-of (c / gamma :mod-of d) :polarity-of-of - '
            ':ARG0-of-of-of (e / eps) :domain-of-of-of (f / phi))\n')
    for on in (['canon'], ['canon', 'rearr'], ['canon', 'reify'], []):
        for mname in ('amr', 'default', 'noop', 'file'):
            R.check('C20.cli', {'on': on, 'model': mname, 'fmt': R.rnd.choice(list(FORMATS)), 'via': 'stdin',
                                'texts': [over]})
    # F13 witness class: reconfigure must use the selected model
    R.check('C20.cli', {'on': ['reconf'], 'model': 'amr', 'fmt': 'std', 'via': 'stdin',
                        'texts': ['(a / alpha :consist-of-of (g / gamma) :ARG1-of (b / beta))\n']})
    R.check('C20.cli', {'on': ['reify', 'dereify'], 'model': 'amr', 'fmt': 'std', 'via': 'stdin',
                        'texts': ['(a / alpha :mod (b / beta) :ARG1-of (m / have-mod-91 :ARG2 (c / c)))\n']})


RUNNERS = {'C17': run_C17, 'C20': run_C20}
