"""Bounded drivers for C02, C03, C04, C05, C06, C10, C11, C12, C14."""
import collections
import copy
import itertools
import signal

import penman
from penman import layout, transform
from penman.exceptions import LayoutError
from penman.graph import Graph
from penman.layout import Push, Pop, POP, LayoutMarker
from penman.tree import Tree

from .base import check, classifier, get_model, canon_triples
from . import specs, gens


class Timeout(Exception):
    pass


def _alarm(signum, frame):
    raise Timeout()


def with_watchdog(fn, seconds=5):
    old = signal.signal(signal.SIGALRM, _alarm)
    signal.alarm(seconds)
    try:
        return fn()
    finally:
        signal.alarm(0)
        signal.signal(signal.SIGALRM, old)


def fmt(node):
    try:
        return penman.format(Tree(node), indent=None)
    except Exception:
        return repr(node)


# =============================== C04 =========================================

@check('C04.reading')
def c04_reading(args):
    node, mname = args['node'], args['model']
    model = get_model(mname)
    noop = mname == 'noop'
    try:
        exp = specs.reading(node, model, noop)
    except Exception:
        return 'SKIP'
    try:
        g = layout.interpret(Tree(node), model)
    except Exception as e:
        return 'interpret raised %s' % type(e).__name__
    got = [(t, specs.marks_of(g, t)) for t in g.triples]
    if g.top != node[0]:
        return 'top %r != %r' % (g.top, node[0])
    if [x[0] for x in got] != [x[0] for x in exp]:
        return 'triples differ: got %r expected %r' % ([x[0] for x in got][:6], [x[0] for x in exp][:6])
    if set(g.variables()) != (specs.tree_vars(node) | {node[0]}) - {None} and node[0] is not None:
        return 'variables differ'
    # markers: keyed by triple, first occurrence wins
    first = {}
    for t, m in exp:
        first.setdefault(t, m)
    for t, m in got:
        if m != first[t]:
            return 'markers differ on %r: got %r expected %r' % (t, m, first[t])
    for t in g.triples:
        if isinstance(t[2], str) and '~' in t[2] and not t[2].startswith('"'):
            return 'alignment left in triple %r' % (t,)
        if '~' in t[1]:
            return 'alignment left in role %r' % (t,)
    # the same reading through the public entry point, from the text of the tree
    try:
        from .d_text import lex_stable_tree
        if not (text_shaped(node) and lex_stable_tree(node)):
            return None          # not a tree that is read back from its own text (C01's domain; decided
        text = penman.format(Tree(node))     # by the documented lexical grammar, not by the library)
    except Exception:
        return None
    try:
        g2 = penman.decode(text, model=model)
    except Exception as e:
        return 'decode raised %s on %r' % (type(e).__name__, text[:80])
    if g2.top != g.top or g2.triples != g.triples or set(g2.variables()) != set(g.variables()):
        return 'decode(text) differs from the reading of the tree: %r -> %r' % (text[:80], g2.triples[:6])
    if {k: list(map(repr, v)) for k, v in g2.epidata.items()} != {k: list(map(repr, v)) for k, v in g.epidata.items()}:
        return 'decode(text) attaches other markers than the reading of the tree: %r' % (text[:80],)
    return None


def text_shaped(node):
    """the tree is one the notation can write down: per node at most one concept branch, and first
    (decided from the documented grammar, independently of the library's parser)"""
    v, bs = node
    for i, (r, t) in enumerate(bs):
        if r == '/' and i != 0:
            return False
        if isinstance(t, tuple) and not text_shaped(t):
            return False
    return True


C04_VARS = ['a', 'b', 'c']
C04_ATOMS = ['k', '"s~1"', '"s"~2', 'a', 'b', 'c', 'x~1', 'b~e.3', None, '7', '"~"', '"a~b"~1',
             # name characters outside ASCII that other notations treat as blanks or line ends: part of the
             # symbol, so `b\u2028` is a constant, not the variable b
             'b\u2028', '\x85k', 'a\x1c', 'c\xa0']
C04_ROLES = [':R', ':R-of', ':R-of-of', ':consist-of', ':consist-of-of', ':R~1',
             ':R-of~e.2', ':', ':mod-of', ':S', ':loc-of']
C04_CONC = [None, 'x', 'a', 'x~1', '"q"', '"q~1"~2']


def c04_gen(rnd, depth, avail, allow_dup):
    v = avail.pop(0) if avail and not (allow_dup and rnd.random() < 0.2) else rnd.choice(C04_VARS)
    bs = []
    c = rnd.choice(C04_CONC)
    if c is not None:
        bs.append(('/', c))
    for _ in range(rnd.randint(0, 3)):
        r = rnd.choice(C04_ROLES)
        if depth < 2 and avail and rnd.random() < 0.45:
            bs.append((r, c04_gen(rnd, depth + 1, avail, allow_dup)))
        else:
            bs.append((r, rnd.choice(C04_ATOMS)))
    if rnd.random() < 0.05 and bs:
        bs.append(bs[0])
    return (v, bs)


def run_C04(R):
    models = ['default', 'amr', 'noop', 'custom']
    for node in gens.corpus(R, 3000 if R.quick else 60000,
                            dict(concepts=(None, 'x', 'b~1'), roles=(':R', ':R-of', ':R-of-of~2'),
                                 atoms=('k', '"s~1"', '"s"~2', 'c~e.1', None))):
        for m in models:
            R.check('C04.reading', {'node': node, 'model': m})
    for it in range(2500 if R.quick else 40000):
        node = c04_gen(R.rnd, 0, C04_VARS[:], True)
        for m in models:
            R.check('C04.reading', {'node': node, 'model': m})
    for it in range(300 if R.quick else 5000):
        node = gens.random_tree(R.rnd, maxn=12, maxd=6)
        for m in ('default', 'amr', 'noop'):
            R.check('C04.reading', {'node': node, 'model': m})


# =============================== C02 =========================================

def norm_empty_concept(node):
    v, bs = node
    out = []
    for r, t in bs:
        if r == '/' and (t is None or t == ''):
            continue
        out.append((r, norm_empty_concept(t) if isinstance(t, tuple) else t))
    return (v, out)


def norm_aligns(node):
    """Alignment indices are integers: '~01' is written back '~1' (recorded as
    N5); compare trees modulo that normalisation only when asked."""
    v, bs = node
    out = []
    for r, t in bs:
        rr, ra = specs.split_role(r) if r != '/' else ('/', None)
        if r != '/' and ra:
            r = rr + specs.norm_aln(ra)
        if isinstance(t, tuple):
            t = norm_aligns(t)
        elif isinstance(t, str):
            a, aa = specs.split_atom(t)
            if aa:
                t = a + specs.norm_aln(aa)
        out.append((r, t))
    return (v, out)


@check('C02.roundtrip')
def c02_roundtrip(args):
    node, mname = args['node'], args['model']
    model = get_model(mname)
    if not gens.wf_tree(node, model, mname == 'noop'):
        return 'SKIP'
    meta = args.get('meta') or {}
    try:
        g = layout.interpret(Tree(node, metadata=dict(meta)), model)
        t2 = with_watchdog(lambda: layout.configure(g, model=model))
    except Timeout:
        return 'configure did not terminate within 5 s'
    except Exception as e:
        return 'raised %s: %s' % (type(e).__name__, str(e)[:60])
    exp = norm_empty_concept(node)
    if t2.node != exp:
        return 'tree differs: %s -> %s' % (fmt(node), fmt(t2.node))
    if t2.metadata != meta:
        return 'metadata differs'
    # the same through the public entry points: encode(decode(s)) is the normal-form text of s
    try:
        from .d_text import lex_stable_tree
        if not (text_shaped(node) and lex_stable_tree(node)):
            return None        # not a text this tree is read back from (C01's domain, decided by the
        text = penman.format(Tree(node, metadata=dict(meta)))     # documented lexical grammar)
        want = penman.format(Tree(exp, metadata=dict(meta)))
        out = with_watchdog(lambda: penman.encode(penman.decode(text, model=model), model=model))
    except Timeout:
        return 'encode(decode(s)) did not terminate within 5 s'
    except Exception as e:
        return 'encode(decode(s)) raised %s: %s' % (type(e).__name__, str(e)[:60])
    if out != want:
        return 'encode(decode(s)) is not the normal form of s: %r -> %r' % (text, out)
    return None


@classifier('C02.roundtrip')
def c02_cls(args, detail):
    node = args['node']
    # N5: an alignment written with leading zeros comes back without them
    if norm_aligns(node) != node:
        return 'N5'
    return None


def run_C02(R):
    models = ['default', 'amr', 'noop', 'custom']
    for node in gens.corpus(R, 6000 if R.quick else 120000):
        for m in (models[:2] if R.quick else models):
            R.check('C02.roundtrip', {'node': node, 'model': m})
    for it in range(1500 if R.quick else 30000):
        node = gens.random_tree(R.rnd, maxn=R.rnd.choice([4, 8, 25]), maxd=R.rnd.choice([3, 8]))
        m = R.rnd.choice(models)
        R.check('C02.roundtrip', {'node': node, 'model': m,
                                  'meta': R.rnd.choice([{}, {'snt': 'a b', 'id': '1'}])})
    for s in ['(a :ROLE (b :ROLE a))', '(a / a :R (b / a :R a))', '(a :R-of (b :R-of a))',
              '(a /)', '(a / x~01)', '(a :R (b) :S (c :T b~1))', '(a :consist-of b :R (b))',
              '(a :R (b :S (c :T (d :U a :V b~2) :W c)))']:
        node = penman.parse(s).node
        for m in models:
            R.check('C02.roundtrip', {'node': node, 'model': m})


# =============================== C03 / C06 ====================================

def wf_graph(triples, top):
    vs = {t[0] for t in triples} | ({top} if top is not None else set())
    inst = collections.Counter(t[0] for t in triples if t[1] == ':instance')
    if any(inst[v] != 1 for v in vs):
        return False
    if len(set(triples)) != len(triples):
        return False
    # python-equal constants of different type (0 == 0.0) are one triple
    return True


def written(t):
    return None if t is None else str(t)


def deinv_content(triples, model, variables, noop=False):
    """Triples up to the model's single deinversion (edges only)."""
    out = []
    for s, r, t in triples:
        if (not noop and r.endswith('-of') and not specs.role_defined(model, r)
                and t in variables and r != ':instance'):
            out.append((written(t), r[:-3], written(s)))
        else:
            out.append((written(s), r, written(t)))
    return sorted(out, key=repr)


def graph_from(args):
    triples = [tuple(t) for t in args['triples']]
    epidata = {tuple(k): list(v) for k, v in (args.get('epidata') or {}).items()}
    return Graph(triples, top=args.get('gtop'), epidata=epidata)


@check('C03.encode_decode')
def c03_encode_decode(args):
    mname = args.get('model', 'default')
    model = get_model(mname)
    g = graph_from(args)
    top = args.get('top')
    vs = g.variables()
    eff_top = top if top is not None else g.top
    if not wf_graph(g.triples, None) or eff_top not in vs:
        return 'SKIP'
    if not specs.connected(g.triples, eff_top, vs):
        return 'SKIP'
    # domain: no inverted attribute whose written target would read back as a
    # variable, no role that is not in canonical inversion form
    for s, r, t in g.triples:
        if r != ':instance' and not gens.canonical_inversion(model, r):
            return 'SKIP'
        if r.endswith('-of') and not specs.role_defined(model, r) and r != ':instance' and s == t:
            return 'SKIP'
        if t not in vs and isinstance(t, str) and t in vs:
            return 'SKIP'
    consts = {written(t) for s, r, t in g.triples if t not in vs and r != ':instance'}
    if consts & set(vs):
        return 'SKIP'   # a constant spelled like a variable reads back as an edge
    try:
        s = with_watchdog(lambda: penman.encode(g, top=top, model=model, indent=args.get('indent', -1)))
    except Timeout:
        return 'encode did not terminate within 5 s'
    except Exception as e:
        return 'encode raised %s: %s' % (type(e).__name__, str(e)[:60])
    try:
        g2 = penman.decode(s, model=model)
    except Exception as e:
        return 'decode raised %s on %r' % (type(e).__name__, s[:80])
    if g2.top != eff_top:
        return 'top %r, requested %r (%s)' % (g2.top, eff_top, s[:80])
    if g2.variables() != vs:
        return 'variables differ: %r vs %r (%s)' % (sorted(g2.variables()), sorted(vs), s[:80])
    a = deinv_content(g.triples, model, vs, mname == 'noop')
    b = deinv_content(g2.triples, model, vs, mname == 'noop')
    if a != b:
        return 'content differs: %s' % s[:100].replace('\n', ' ')
    return None


@check('C06.totality')
def c06_totality(args):
    """LayoutError iff some variable is not weakly connected to the top or the
    requested top is not a variable; no other exception."""
    g = graph_from(args)
    top = args.get('top')
    tp = top if top is not None else g.top
    vs = g.variables()
    if not g.triples:
        conn = True
    else:
        conn = tp in vs and specs.connected(g.triples, tp, vs)
    try:
        with_watchdog(lambda: penman.encode(g, top=top, indent=None))
    except LayoutError:
        if conn:
            return 'LayoutError on a connected graph'
        return None
    except Timeout:
        return 'encode did not terminate'
    except Exception as e:
        return 'raised %s' % type(e).__name__
    if not conn:
        return 'encoded a disconnected graph without error'
    return None


def apply_edits(g, edits):
    vs = sorted(g.variables())
    for e in edits:
        op = e[0]
        if op == 'drop':
            g.epidata.pop(g.triples[e[1] % len(g.triples)], None)
        elif op == 'clear':
            g.epidata[g.triples[e[1] % len(g.triples)]] = []
        elif op == 'push':
            g.epidata.setdefault(g.triples[e[1] % len(g.triples)], []).append(Push(vs[e[2] % len(vs)]))
        elif op == 'pushfront':
            g.epidata.setdefault(g.triples[e[1] % len(g.triples)], []).insert(0, Push(vs[e[2] % len(vs)]))
        elif op == 'pop':
            g.epidata.setdefault(g.triples[e[1] % len(g.triples)], []).append(POP)
        elif op == 'swap':
            t1 = g.triples[e[1] % len(g.triples)]
            t2 = g.triples[e[2] % len(g.triples)]
            a_, b_ = g.epidata.get(t1, []), g.epidata.get(t2, [])
            g.epidata[t1] = [x for x in a_ if not isinstance(x, LayoutMarker)] + [x for x in b_ if isinstance(x, LayoutMarker)]
            g.epidata[t2] = [x for x in b_ if not isinstance(x, LayoutMarker)] + [x for x in a_ if isinstance(x, LayoutMarker)]
        elif op == 'perm':
            import random
            random.Random(e[1]).shuffle(g.triples)
        elif op == 'rev':
            g.triples.reverse()
        elif op == 'move':
            i, j = e[1] % len(g.triples), e[2] % len(g.triples)
            g.triples.insert(j, g.triples.pop(i))
        elif op == 'strip':
            g.epidata = {}
    return g


@check('C06.history')
def c06_history(args):
    mname = args.get('model', 'default')
    model = get_model(mname)
    try:
        g0 = penman.decode(args['src'], model=model)
    except Exception:
        return 'SKIP'
    if not wf_graph(g0.triples, None):
        return 'SKIP'
    g = apply_edits(copy.deepcopy(g0), args['edits'])
    vs = sorted(g.variables())
    top = vs[args['top'] % len(vs)] if args.get('top') is not None else None
    try:
        s = with_watchdog(lambda: penman.encode(g, top=top, model=model, indent=None))
    except Timeout:
        return 'encode did not terminate within 5 s'
    except LayoutError as e:
        return 'LayoutError on a connected graph: %s' % e
    except Exception as e:
        return 'encode raised %s: %s' % (type(e).__name__, str(e)[:60])
    try:
        g2 = penman.decode(s, model=model)
    except Exception as e:
        return 'decode raised %s' % type(e).__name__
    if g2.top != (top or g.top):
        return 'top differs'
    vset = g0.variables()
    if deinv_content(g2.triples, model, vset) != deinv_content(g0.triples, model, vset):
        return 'content differs: %s' % s[:120]
    return None


C06_SRC = [
    '(a / x :R (b / y :R (c / z :S a)) :T c :A 1)',
    '(a / x :R (b / y :S-of (c / z)) :R-of (d / w :Q b))',
    '(a / x :ARG0 (b / y) :ARG1-of (c / z :ARG0 b))',
    '(a / x)', '(a / x :R (b / y :R a))', '(a / x :R (b / y) :S (c / z :T b))',
    '(a / x :R (b / y :R (c / z :R (d / w))) :S d)',
    '(a / x :R-of (b / y :R-of (c / z)))', '(a / x :k 1 :R (b / y :k 0 :S "s"))',
    '(a / x :R b :S (b / y))', '(a / x :R (b / y :S c :T (c / z)))',
    '(a / x :T (c / z) :R (b / y :R c))',
    '(a / x :R (b / y :R (c / z)) :R (d / w :R (e / v)))',
]


def run_C03(R):
    n_small = 0
    for vs, ts in gens.wf_graphs(R.rnd, 2, 2):
        for top in vs:
            R.check('C03.encode_decode', {'triples': ts, 'top': top})
            R.check('C03.encode_decode', {'triples': list(reversed(ts)), 'top': top})
    cnt = 0
    for vs, ts in gens.sample_stream(gens.wf_graphs(R.rnd, 3, 1), R.rnd,
                                     1500 if R.quick else 40000, 300000):
        for top in vs:
            order = list(ts)
            R.check('C03.encode_decode', {'triples': order, 'top': top})
            R.rnd.shuffle(order)
            R.check('C03.encode_decode', {'triples': order, 'top': top,
                                          'model': R.rnd.choice(['default', 'amr', 'custom'])})
    # decoded graphs (markers) x every top x shuffles
    for it in range(600 if R.quick else 12000):
        node = gens.random_tree(R.rnd, maxn=R.rnd.choice([3, 6]), maxd=3)
        m = R.rnd.choice(['default', 'amr'])
        model = get_model(m)
        if not gens.wf_tree(node, model):
            continue
        g = layout.interpret(Tree(node), model)
        for top in sorted(g.variables()):
            for variant in ('markers', 'nomarkers', 'shuffled'):
                h = copy.deepcopy(g)
                if variant == 'nomarkers':
                    h.epidata = {}
                if variant == 'shuffled':
                    R.rnd.shuffle(h.triples)
                R.check('C03.encode_decode',
                        {'triples': h.triples, 'epidata': h.epidata, 'top': top, 'model': m})
    run_C03_model_roles(R)


def run_C03_model_roles(R):
    """hand-built graphs whose edges carry roles drawn from the model's own table (every entry,
    patterns instantiated), spelled as defined and with an inversion suffix, encoded from every top"""
    for m in ('amr', 'custom'):
        own = gens.model_roles(get_model(m))
        if not own:
            continue
        if m == 'amr':
            for b in own:
                R.check('C13.model_table', {'model': m, 'role': b})
        for it in range(150 if R.quick else 3000):
            r1, r2 = R.rnd.choice(own), R.rnd.choice(own)
            r1 += R.rnd.choice(['', '-of', '-of'])
            r2 += R.rnd.choice(['', '', '-of'])
            ts = [('a', ':instance', 'x'), ('t', ':instance', 'y'), ('c', ':instance', 'z'),
                  R.rnd.choice([('t', r1, 'a'), ('a', r1, 't')]), R.rnd.choice([('c', r2, 't'), ('t', r2, 'c'), ('a', r2, 'c')])]
            if len(set(ts)) != len(ts):
                continue
            R.rnd.shuffle(ts)
            for top in ('a', 't', 'c'):
                R.check('C03.encode_decode', {'triples': ts, 'top': top, 'model': m})


def run_C06(R):
    ops = ['drop', 'clear', 'push', 'pushfront', 'pop', 'swap', 'perm', 'rev', 'move', 'strip']
    for it in range(2500 if R.quick else 50000):
        src = R.rnd.choice(C06_SRC)
        edits = []
        for _ in range(R.rnd.randint(1, 4)):
            op = R.rnd.choice(ops)
            edits.append([op, R.rnd.randrange(12), R.rnd.randrange(12)])
        R.check('C06.history', {'src': src, 'edits': edits,
                                'top': R.rnd.choice([None, 0, 1, 2, 3]),
                                'model': R.rnd.choice(['default', 'amr'])})
    if not R.quick:
        for src in C06_SRC:
            for op1 in ops:
                for i in range(6):
                    for j in range(4):
                        for top in (None, 0, 1, 2):
                            R.check('C06.history', {'src': src, 'edits': [[op1, i, j]], 'top': top})
    for it in range(400 if R.quick else 8000):
        node = gens.random_tree(R.rnd, maxn=6, maxd=3, aligns=False)
        if not gens.wf_tree(node, get_model('default')):
            continue
        src = fmt(node)
        edits = [[R.rnd.choice(ops), R.rnd.randrange(20), R.rnd.randrange(20)]
                 for _ in range(R.rnd.randint(1, 3))]
        R.check('C06.history', {'src': src, 'edits': edits, 'top': R.rnd.choice([None, 0, 1, 2, 3, 4])})
    maxlen = 2 if R.quick else 3
    stream = gens.small_triple_lists(srcs=('a', 'b') if R.quick else ('a', 'b', 'c'),
                                     tgts=('a', 'b', 'x', None, 0) if R.quick else ('a', 'b', 'c', 'x', None, 0),
                                     maxlen=maxlen)
    for ts in gens.sample_stream(stream, R.rnd, None if R.quick else 60000, 200000):
        for top in (None, 'a', 'b', 'q'):
            R.check('C06.totality', {'triples': ts, 'top': top}, nontrivial=bool(ts))


# =============================== C05 =========================================

def ref_alnum(role):
    """independent reference key: name + numeric value of a trailing digit run"""
    i = len(role)
    while i > 0 and role[i - 1].isdigit() and role[i - 1] in '0123456789':
        i -= 1
    if 0 < i < len(role):
        return (role[:i], int(role[i:]))
    return (role, 0)


def ref_key(kname, model):
    if kname == 'original':
        return lambda r: True
    if kname == 'alphanumeric':
        return ref_alnum
    if kname == 'canonical':
        return lambda r: (r.endswith('-of') and not specs.role_defined(model, r), ref_alnum(r))
    return None


def model_key(kname, model, seed=0):
    if kname is None:
        return None
    if kname == 'random':
        import random
        random.seed(seed)
    return getattr(model, kname + '_order')


@check('C05.rearrange')
def c05_rearrange(args):
    node, mname, kname, af = args['node'], args['model'], args['key'], args['af']
    model = get_model(mname)
    if not gens.wf_tree(node, model):
        return 'SKIP'
    t = Tree(copy.deepcopy(node))
    g = layout.interpret(Tree(node), model)
    try:
        layout.rearrange(t, key=model_key(kname, model, args.get('seed', 0)), attributes_first=af)
        g4 = layout.interpret(t, model)
    except Exception as e:
        return 'raised %s' % type(e).__name__
    if g4.top != g.top or canon_triples(g4.triples) != canon_triples(g.triples):
        return 'content changed: %s -> %s' % (fmt(node), fmt(t.node))
    orig = dict((v, bs) for v, bs in gens.tree_nodes(node))
    vars_ = set(orig) if af else set()
    for v, bs in gens.tree_nodes(t.node):
        ob = orig[v]

        def flat(b):
            return (b[0], b[1][0] if isinstance(b[1], tuple) else ('ATOM', b[1]))
        if sorted(map(repr, map(flat, bs))) != sorted(map(repr, map(flat, ob))):
            return 'branch multiset of %s changed' % v
        if ob and ob[0][0] == '/' and (not bs or bs[0] != ob[0] and flat(bs[0]) != flat(ob[0])):
            return 'concept of %s not first' % v
        rk = ref_key(kname, model)
        if rk is not None:
            rest = bs[1:] if bs and bs[0][0] == '/' and ob[0][0] == '/' else bs
            orest = ob[1:] if ob and ob[0][0] == '/' else ob

            def sk(b):
                r, x = b
                c1 = (x[0] in vars_) if isinstance(x, tuple) else (x in vars_)
                return (c1, rk(r))
            ks = [sk(b) for b in rest]
            if ks != sorted(ks):
                return 'branches of %s not ordered by key %s' % (v, kname)
            # stability: equal keys keep their original relative order
            exp = sorted(orest, key=sk)
            if [flat(b) for b in exp] != [flat(b) for b in rest]:
                return 'branches of %s not a stable sort' % v
    return None


@check('C05.reconfigure')
def c05_reconfigure(args):
    node, mname, kname = args['node'], args['model'], args['key']
    model = get_model(mname)
    if not gens.wf_tree(node, model):
        return 'SKIP'
    g = layout.interpret(Tree(node), model)
    if args.get('strip'):
        g.epidata = {}
    if args.get('implicit_top'):
        # a hand-built graph: no markers, the top is implicit (the first triple's source)
        g = Graph(g.triples)
    vs = sorted(g.variables())
    top = None if args.get('top') is None else vs[args['top'] % len(vs)]
    consts = {written(t) for s, r, t in g.triples if t not in g.variables() and r != ':instance'}
    if consts & set(vs):
        return 'SKIP'
    try:
        t3 = with_watchdog(lambda: layout.reconfigure(g, top=top, model=model,
                                                      key=model_key(kname, model, args.get('seed', 0))))
        g3 = layout.interpret(t3, model)
    except Timeout:
        return 'reconfigure did not terminate'
    except Exception as e:
        return 'raised %s: %s' % (type(e).__name__, str(e)[:60])
    if g3.top != (top or g.top):
        return 'top changed'
    if g3.variables() != g.variables():
        return 'variables changed'
    if canon_triples(g3.triples) != canon_triples(g.triples):
        return 'content changed: %s -> %s' % (fmt(node), fmt(t3.node))
    return None


def run_C05(R):
    keys = [None, 'original', 'alphanumeric', 'canonical', 'random']
    roles = gens.ROLES_AMR + [':op9', ':op11', ':ARG10', ':a1b2', ':A', ':a', ':B']
    for it in range(1200 if R.quick else 25000):
        node = gens.random_tree(R.rnd, maxn=R.rnd.choice([3, 7]), maxd=3, roles=roles)
        m = R.rnd.choice(['default', 'amr', 'custom'])
        for k in keys:
            R.check('C05.rearrange', {'node': node, 'model': m, 'key': k,
                                      'af': R.rnd.random() < 0.5, 'seed': R.rnd.randrange(100)})
        k = R.rnd.choice(keys)
        R.check('C05.reconfigure', {'node': node, 'model': m, 'key': k,
                                    'top': R.rnd.choice([None, None, 0, 1, 2, 3]),
                                    'strip': R.rnd.random() < 0.3, 'seed': R.rnd.randrange(100),
                                    'implicit_top': R.rnd.random() < 0.3})
    for node in gens.corpus(R, 1500 if R.quick else 30000, thorough_extra=False):
        R.check('C05.reconfigure', {'node': node, 'model': 'default', 'key': 'canonical',
                                    'top': R.rnd.choice([None, 0, 1, 2])})
    for s in ['(a / x :op10 k :op2 j :op1 i)', '(a / x :ARG1-of b :ARG0 c :ARG1 (b / y))',
              '(a / x :B 1 :a 2 :A 3 :b 4)', '(a :R (b / y) :Q k :P (c / z))']:
        node = penman.parse(s).node
        for k in keys:
            for af in (False, True):
                R.check('C05.rearrange', {'node': node, 'model': 'default', 'key': k, 'af': af})


# =============================== C10 =========================================

@check('C10.reset')
def c10_reset(args):
    node, fmt_ = args['node'], args['fmt']
    model = get_model('default')
    if not gens.wf_tree(node, model):
        return 'SKIP'
    t = Tree(copy.deepcopy(node))
    t2 = Tree(copy.deepcopy(node))
    try:
        with_watchdog(lambda: t2.reset_variables(fmt_), 3)
    except Timeout:
        return 'reset_variables did not terminate'
    except Exception as e:
        return 'raised %s' % type(e).__name__
    olds = [v for v, _ in t.nodes()]
    news = [v for v, _ in t2.nodes()]
    if len(olds) != len(news):
        return 'node count changed'
    if len(set(news)) != len(news):
        return 'new variables collide: %r' % (news,)
    sigma = dict(zip(olds, news))
    # expected names: first-fit of fmt in depth-first order
    used = set()
    for (v, bs), nv in zip(t.nodes(), news):
        c = next((tg for r, tg in bs if r == '/'), None)
        pre = '_'
        if c and isinstance(c, str):
            for ch in c:
                if ch.isalpha():
                    pre = ch.lower()
                    break
        i = 0
        while True:
            cand = fmt_.format(prefix=pre, i=i, j='' if i == 0 else i + 1)
            if cand not in used:
                break
            i += 1
        used.add(cand)
        if cand != nv:
            return 'variable of %s is %r, expected first-fit %r' % (v, nv, cand)

    def expect(nd):
        v, bs = nd
        out = []
        for r, tg in bs:
            if isinstance(tg, tuple):
                out.append((r, expect(tg)))
            elif r != '/' and isinstance(tg, str) and not tg.startswith('"'):
                a, _, al = tg.partition('~')
                if a in sigma:
                    tg = sigma[a] + _ + al
                out.append((r, tg))
            else:
                out.append((r, tg))
        return (sigma[v], out)
    exp = expect(node)
    if t2.node != exp:
        return 'relabelled tree differs: %s -> %s' % (fmt(node), fmt(t2.node))
    consts = {specs.split_atom(tg)[0] for _, bs in t.nodes() for r, tg in bs
              if isinstance(tg, str) and r != '/' and specs.split_atom(tg)[0] not in sigma}
    if consts & set(news):
        return None   # isomorphism clause excluded by the property
    g1 = layout.interpret(t, model)
    g2 = layout.interpret(t2, model)
    ren = [(sigma.get(s, s), r, (sigma.get(x, x) if (r != ':instance' and x in sigma) else x))
           for s, r, x in g1.triples]
    if g2.top != sigma[g1.top] or g2.triples != ren:
        return 'not an isomorphism: %s -> %s' % (fmt(node), fmt(t2.node))
    return None


@classifier('C10.reset')
def c10_cls(args, detail):
    f = args['fmt']
    if 'terminate' in detail and '{i}' not in f and '{j}' not in f:
        return 'N4'
    return None


def run_C10(R):
    # {prefix}, {i}, {j} "in any combination": every ordering of every subset that mentions {i} or {j}
    # (formats with neither do not terminate once two nodes need a name: finding N4, one witness below),
    # bare and with literal text around
    import itertools
    fmts = ['a{i}', '{prefix}_{i}{j}', 'v{j}', '{prefix}{i}x{j}']
    for k in (1, 2, 3):
        for perm in itertools.permutations(['{prefix}', '{i}', '{j}'], k):
            if '{i}' in perm or '{j}' in perm:
                fmts.append(''.join(perm))
    for it in range(1500 if R.quick else 30000):
        node = gens.random_tree(R.rnd, maxn=R.rnd.choice([3, 6]), maxd=3,
                                roles=[':R', ':S', ':R-of', ':op1'],
                                concepts=('x', 'v1', 'i', '"s t"', 'éa', '1x', 'a', 'a2', 'v0'),
                                consts=('k', '"v1"', '7', '-', 'a', 'x2', 'a1'))
        for f in fmts:
            R.check('C10.reset', {'node': node, 'fmt': f})
    for node in gens.corpus(R, 1500 if R.quick else 30000,
                            dict(concepts=(None, 'b', 'a'), roles=(':R', ':R-of'),
                                 atoms=('k', '"b"', 'b~e.1', 'a2', None)), thorough_extra=False):
        R.check('C10.reset', {'node': node, 'fmt': R.rnd.choice(fmts)})
    # variables that also occur inside alignment markers / other atoms
    for it in range(300 if R.quick else 5000):
        node = gens.random_tree(R.rnd, maxn=4, maxd=2, prefix=R.rnd.choice(['e', 'e.', 'x', '1']),
                                roles=[':R', ':S-of'], concepts=('e', 'x', 'e0'), consts=('e', 'e.1', 'k'))
        R.check('C10.reset', {'node': node, 'fmt': R.rnd.choice(fmts)})
    for s in ['(v1 / i :ARG0 v1~e.5)', '(a / b :R (b / a :S a~1 :T "a"))', '(x :R (y :S x))',
              '(s / see-01 :ARG0 (e / i~e.0) :ARG1 e~e.0)', '(e :R (e2 :S e~e.1,2 :T e2~e.3))']:
        for f in fmts:
            R.check('C10.reset', {'node': penman.parse(s).node, 'fmt': f})
    R.check('C10.reset', {'node': penman.parse('(a / x :R (b / x))').node, 'fmt': 'x'})


# =============================== C14 =========================================

def contexts_from_tree(node, model):
    variables = specs.tree_vars(node)

    def rd(nd):
        v, bs = nd
        res = []
        hc = False
        for r, tg in bs:
            role = specs.split_role(r)[0]
            if role == ':instance':
                hc = True
                res.append((v, None, False))
                continue
            inv = role.endswith('-of') and not specs.role_defined(model, role)
            if isinstance(tg, tuple):
                res.append((v, tg[0], inv))
                res.extend(rd(tg))
            else:
                a = specs.split_atom(tg)[0]
                res.append((v, None, inv and a in variables))
        if not hc:
            res.insert(0, (v, None, False))
        return res
    return rd(node)


@check('C14.diagnostics')
def c14_diag(args):
    node, mname = args['node'], args['model']
    model = get_model(mname)
    if not gens.wf_tree(node, model):
        return 'SKIP'
    g = layout.interpret(Tree(node), model)
    exp = contexts_from_tree(node, model)
    try:
        ctx = layout.node_contexts(g)
        if ctx != [e[0] for e in exp]:
            return 'contexts %r, expected %r (%s)' % (ctx, [e[0] for e in exp], fmt(node))
        for tr, e in zip(g.triples, exp):
            if layout.get_pushed_variable(g, tr) != e[1]:
                return 'pushed variable of %r wrong' % (tr,)
            if tr[0] != tr[2] and layout.appears_inverted(g, tr) != e[2]:
                return 'appears_inverted(%r) wrong (%s)' % (tr, fmt(node))
    except Exception as e:
        return 'raised %s' % type(e).__name__
    g2 = Graph(g.triples, top=g.top)
    try:
        layout.node_contexts(g2)
        for tr in g2.triples:
            if layout.appears_inverted(g2, tr) not in (False, True):
                return 'appears_inverted not a bool'
            if layout.get_pushed_variable(g2, tr) is not None:
                return 'pushed variable on marker-less graph'
    except Exception as e:
        return 'marker-less graph: raised %s' % type(e).__name__
    return None


def run_C14(R):
    for it in range(2500 if R.quick else 40000):
        node = gens.random_tree(R.rnd, maxn=R.rnd.choice([3, 6, 12]), maxd=R.rnd.choice([2, 6]),
                                concept_p=0.7)
        R.check('C14.diagnostics', {'node': node, 'model': R.rnd.choice(['default', 'amr'])})
    for node in gens.corpus(R, 3000 if R.quick else 60000):
        R.check('C14.diagnostics', {'node': node, 'model': 'default'})
    for s in ['(a :ROLE (b :ROLE a))', '(a :R (b :R (c :R (d))) :S d)', '(a :R-of (b :S-of (c)))']:
        R.check('C14.diagnostics', {'node': penman.parse(s).node, 'model': 'default'})


# =============================== C11 / C12 ====================================

def wellformed_graph(g, result=False):
    """well-formed as C12 states it: every variable has exactly one node and every source is a variable
    with a node.  For *inputs* the triples are in addition pairwise distinct; a *result* may repeat a
    triple (dereifying a node whose relation is also written directly): the property does not forbid it
    and the graph still encodes and decodes to itself, which is checked separately."""
    inst = collections.Counter(t[0] for t in set(g.triples) if t[1] == ':instance') if result else \
        collections.Counter(t[0] for t in g.triples if t[1] == ':instance')
    vs = g.variables()
    if any(inst[v] != 1 for v in vs):
        return 'instance count'
    if any(t[0] not in inst for t in g.triples):
        return 'source without node'
    if not result and len(set(g.triples)) != len(g.triples):
        return 'duplicate triple'
    return None


C12_ROLES = [':ARG0', ':ARG1', ':mod', ':domain', ':op1', ':polarity', ':quant',
             ':location', ':time', ':ARG0-of', ':mod-of', ':location-of', ':part', ':loc']


def gen_graph(rnd, aligned=False):
    n = rnd.randint(1, 4)
    vs = ['v%d' % i for i in range(n)]
    if rnd.random() < 0.15:
        vs[rnd.randrange(n)] = rnd.choice(['_', '_2'])
        vs = list(dict.fromkeys(vs))
        n = len(vs)
    ts = [(v, ':instance', rnd.choice(['x', 'y', 'have-mod-91', 'be-located-at-91', '_', 'be-at-91']))
          for v in vs]
    for i in range(1, n):
        p = rnd.choice(vs[:i])
        r = rnd.choice([':ARG0', ':ARG1', ':ARG2', ':mod', ':location', ':time', ':part', ':loc'])
        ts.append((p, r, vs[i]) if rnd.random() < 0.7 else (vs[i], r, p))
    for _ in range(rnd.randint(0, 3)):
        s = rnd.choice(vs)
        if rnd.random() < 0.5:
            ts.append((s, rnd.choice([':ARG0', ':mod', ':location', ':quant', ':loc']), rnd.choice(vs)))
        else:
            ts.append((s, rnd.choice([':polarity', ':quant', ':mod', ':op1', ':value', ':loc']),
                       rnd.choice(['-', '1', '"s"', 'imperative', '0'])))
    ts = list(dict.fromkeys(ts))
    if rnd.random() < 0.3:
        # a reified relation written by hand: the node, its source edge and its target edge, as the
        # AMR table defines them (what dereify_edges collapses)
        table = {':mod': ('have-mod-91', ':ARG1', ':ARG2'), ':location': ('be-located-at-91', ':ARG1', ':ARG2')}
        cands = [t for t in ts if t[1] in table and t[0] != t[2]]
        if cands:
            s_, r, t_ = rnd.choice(cands)
            c, sr, tr = table[r]
            x = rnd.choice(['r0', '_', 'x9'])
            if x not in vs:
                i = ts.index((s_, r, t_))
                ts[i:i + 1] = [(x, ':instance', c), (x, sr, s_), (x, tr, t_)]
    rnd.shuffle(ts)
    return ts, rnd.choice(vs)


def TF(model):
    return {'R': lambda g: transform.reify_edges(g, model),
            'D': lambda g: transform.dereify_edges(g, model),
            'A': lambda g: transform.reify_attributes(g),
            'I': lambda g: transform.indicate_branches(g, model)}


def build_kind(args, model):
    g0 = Graph([tuple(t) for t in args['triples']], top=args['top'])
    kind = args['kind']
    if kind == 'markerless':
        return g0
    dec = penman.decode(penman.encode(g0, model=model), model=model)
    if kind == 'decoded':
        return dec
    if kind == 'edited':
        if dec.triples:
            dec.epidata[dec.triples[args.get('edit', 0) % len(dec.triples)]] = []
        return dec
    if kind in ('edited-pop', 'edited-push', 'edited-drop'):
        # a user's edit of the layout markers: a surplus POP, a Push on another triple, a dropped marker
        if dec.triples:
            t = dec.triples[args.get('edit', 0) % len(dec.triples)]
            if kind == 'edited-pop':
                dec.epidata.setdefault(t, []).append(layout.POP)
            elif kind == 'edited-push':
                vs = sorted(v for v in dec.variables() if isinstance(v, str))
                dec.epidata.setdefault(t, []).insert(0, layout.Push(vs[args.get('edit', 0) % len(vs)]))
            elif dec.epidata.get(t):
                dec.epidata[t].pop(args.get('edit', 0) % len(dec.epidata[t]))
        return dec
    if kind == 'aligned':
        for i, t in enumerate(dec.triples):
            if i % 2 == args.get('edit', 0) % 2:
                from penman.surface import Alignment, RoleAlignment
                if t[1] != ':instance':
                    dec.epidata.setdefault(t, []).insert(0, RoleAlignment((i,), prefix='e.'))
                    if (i + args.get('edit', 0)) % 3 != 0 and t[2] is not None:
                        # the target of an edge or attribute (symbol, number or string) is aligned as well
                        dec.epidata[t].append(Alignment((i + 1,), prefix='e.'))
                else:
                    dec.epidata.setdefault(t, []).insert(0, Alignment((i, i + 1), prefix='x'))
        return dec
    raise KeyError(kind)


@check('C12.program')
def c12_program(args):
    mname = args['model']
    model = get_model(mname)
    try:
        g = build_kind(args, model)
    except Exception as e:
        return 'SKIP'
    if wellformed_graph(g) or not specs.connected(g.triples, g.top, g.variables()):
        return 'SKIP'
    vs0 = g.variables()
    for s, r, t in g.triples:   # constants spelled like variables are out of domain
        if t not in vs0 and written(t) in vs0:
            return 'SKIP'
    tf = TF(model)
    x = g
    before = (list(g.triples), {k: list(map(repr, v)) for k, v in g.epidata.items()}, g.top)
    try:
        for p in args['prog']:
            x = tf[p](x)
    except Exception as e:
        return 'raised %s in %s: %s' % (type(e).__name__, args['kind'], str(e)[:60])
    if (list(g.triples), {k: list(map(repr, v)) for k, v in g.epidata.items()}, g.top) != before:
        return 'argument modified'
    if x.top != g.top:
        return 'top changed: %r -> %r' % (g.top, x.top)
    w = wellformed_graph(x, result=True)
    if w:
        return 'ill-formed result (%s)' % w
    if not specs.connected(x.triples, x.top, x.variables()):
        return 'result is not connected'
    try:
        s = with_watchdog(lambda: penman.encode(x, model=model, indent=None))
        y = penman.decode(s, model=model)
    except Timeout:
        return 'encode did not terminate'
    except Exception as e:
        return 'encode/decode raised %s' % type(e).__name__
    if y.top != x.top or canon_triples(y.triples) != canon_triples(x.triples):
        return 'result does not decode to itself: %s' % s[:120]
    prog = args['prog']
    if prog == ['A']:
        vs = x.variables()
        if any(t[1] != ':instance' and t[2] not in vs for t in x.triples):
            return 'attribute remains after reify_attributes'
        new = vs - g.variables()
        conc = {t[0]: t[2] for t in x.triples if t[1] == ':instance' and t[0] in new}
        back = [(s_, r, conc[t]) if (t in conc and r != ':instance') else (s_, r, t)
                for s_, r, t in x.triples if s_ not in conc]
        if back != g.triples:
            return 'contracting the new nodes does not give back the original'
    if prog == ['I']:
        rest = [t for t in x.triples if t[1] != model.top_role]
        if rest != g.triples:
            return 'removing top-role triples does not give back the original'
        npush = sum(1 for t in g.triples if any(isinstance(e, Push) for e in g.epidata.get(t, [])))
        if len(x.triples) - len(g.triples) != npush:
            return 'number of top-role triples != number of nested nodes'
    return None


@classifier('C12.program')
def c12_cls(args, detail):
    model = get_model(args['model'])
    ts = [tuple(t) for t in args['triples']]
    vs = {t[0] for t in ts}
    prog = args['prog']
    # N8: reify_attributes on an attribute whose role is inverted
    if 'A' in prog and any(r.endswith('-of') and not specs.role_defined(model, r) and t not in vs
                           for s, r, t in ts if r != ':instance'):
        return 'N8'
    # N14: indicate_branches believes every Push marker, also those encode does not realise (on an
    # instance triple, naming neither end of the triple, repeating an earlier Push, naming the top or a
    # node already written): the graph carries a Push that is not there after encode + decode
    if 'I' in prog and args.get('kind') == 'edited-push':
        try:
            g = build_kind(args, model)
            g2 = penman.decode(penman.encode(g, model=model), model=model)
            for t in g.triples:
                for e in g.epidata.get(t, []):
                    if isinstance(e, Push) and not any(isinstance(e2, Push) and e2.variable == e.variable
                                                       for e2 in g2.epidata.get(t, [])):
                        return 'N14'
        except Exception:
            pass
    # F4: ambiguous dereification table (include-91: :subset/:superset)
    if 'D' in prog and any(t[1] == ':instance' and t[2] == 'include-91' for t in ts):
        return 'F4'
    return None


@check('C11.inverse')
def c11_inverse(args):
    mname = args['model']
    model = get_model(mname)
    try:
        g = build_kind(args, model)
    except Exception:
        return 'SKIP'
    if wellformed_graph(g) or not specs.connected(g.triples, g.top, g.variables()):
        return 'SKIP'
    vs0 = g.variables()
    for s, r, t in g.triples:
        if t not in vs0 and written(t) in vs0:
            return 'SKIP'
        if r.endswith('-of') and not specs.role_defined(model, r) and t not in vs0 and r != ':instance':
            return 'SKIP'   # inverted attribute: no reading as an edge
    # domain: no collapsible reified node to begin with; unambiguous table
    try:
        if transform.dereify_edges(g, model).triples != g.triples:
            return 'SKIP'
    except Exception as e:
        return 'dereify_edges raised %s' % type(e).__name__
    for t in g.triples:
        if len(model.reifications.get(t[1], [])) > 1:
            return 'SKIP'
        if t[1] in model.reifications:
            c = model.reifications[t[1]][0][0]
            if len(model.dereifications.get(c, [])) > 1:
                return 'SKIP'
    try:
        r = transform.reify_edges(g, model)
    except Exception as e:
        return 'reify_edges raised %s' % type(e).__name__
    if any(model.is_role_reifiable(x[1]) for x in r.triples):
        return 'reifiable role remains'
    if r.top != g.top:
        return 'top changed'
    new = r.variables() - g.variables()
    if any(not (v == '_' or (v.startswith('_') and v[1:].isdigit())) for v in new):
        return 'non-fresh variable introduced'
    kept = [t for t in g.triples if not model.is_role_reifiable(t[1])]
    if [t for t in r.triples
            if t[0] not in new and (t[1] == ':instance' or t[2] not in new)] != kept:
        return 'other triples not kept'
    try:
        d = transform.dereify_edges(r, model)
        s1 = penman.encode(d, model=model, indent=None)
        s0 = penman.encode(g, model=model, indent=None)
    except Exception as e:
        return 'raised %s' % type(e).__name__
    if d.triples != g.triples and canon_triples(d.triples) != canon_triples(g.triples):
        return 'dereify(reify(g)) has different triples'
    if s1 != s0:
        return 'text differs: %s vs %s' % (s0[:80], s1[:80])
    return None


@check('C11.nocollapse')
def c11_nocollapse(args):
    """dereify never collapses the top, a node with another relation, or a
    node referenced elsewhere"""
    model = get_model(args['model'])
    g = Graph([tuple(t) for t in args['triples']], top=args['top'])
    if wellformed_graph(g):
        return 'SKIP'
    try:
        d = transform.dereify_edges(g, model)
    except Exception as e:
        return 'raised %s' % type(e).__name__
    gone = g.variables() - d.variables()
    for v in gone:
        if v == g.top:
            return 'top collapsed'
        rel = [t for t in g.triples if t[0] == v and t[1] != ':instance']
        if len(rel) != 2:
            return 'node %s with %d relations collapsed' % (v, len(rel))
        if any(t[2] == v for t in g.triples if t[1] != ':instance'):
            return 'node %s referenced elsewhere collapsed' % v
    if d.top != g.top:
        return 'top changed'
    return None


def run_C12(R):
    for it in range(900 if R.quick else 15000):
        ts, top = gen_graph(R.rnd)
        m = R.rnd.choice(['amr', 'amr', 'default', 'custom'])
        for kind in ('markerless', 'decoded', 'edited', 'aligned', 'edited-pop', 'edited-push', 'edited-drop'):
            L = R.rnd.choice([1, 1, 2, 3, 4])
            prog = [R.rnd.choice('RDAI') for _ in range(L)]
            if prog.count('I') > 1:
                continue
            R.check('C12.program', {'triples': ts, 'top': top, 'kind': kind, 'prog': prog,
                                    'model': m, 'edit': R.rnd.randrange(8)})
        # the command-line order
        prog = [p for p in 'RDAI' if R.rnd.random() < 0.5]
        if prog:
            R.check('C12.program', {'triples': ts, 'top': top, 'kind': 'decoded', 'prog': prog, 'model': m})
    for p in 'RDAI':
        for src in C06_SRC + ['(a / x :mod (b / y) :location-of (c / z) :quant 1)',
                              '(a / have-mod-91 :ARG1 (b / x) :ARG2 (c / y))',
                              '(b / x :ARG1-of (a / have-mod-91 :ARG2 (c / y)))']:
            g = penman.decode(src, model=get_model('amr'))
            R.check('C12.program', {'triples': g.triples, 'top': g.top, 'kind': 'decoded',
                                    'prog': [p], 'model': 'amr'})


    # witness of the repaired finding N13 (a surplus POP before a re-entrant reifiable edge)
    R.check('C12.program', {'triples': [('a', ':instance', 'x'), ('a', ':r', 'b'), ('b', ':instance', 'y'),
                                        ('a', ':mod', 'b')],
                            'top': 'a', 'kind': 'edited-pop', 'prog': ['R'], 'model': 'amr', 'edit': 2})
    # witnesses of the recorded findings N8 and F4 stay in the corpus
    R.check('C12.program', {'triples': [('a', ':instance', 'x'), ('a', ':location-of', 'imperative')],
                            'top': 'a', 'kind': 'decoded', 'prog': ['A'], 'model': 'amr'})
    R.check('C12.program', {'triples': [('a', ':instance', 'x'), ('i', ':ARG1', 'a'),
                                        ('i', ':instance', 'include-91'), ('i', ':ARG2', '7')],
                            'top': 'a', 'kind': 'decoded', 'prog': ['D'], 'model': 'amr'})


def run_C11(R):
    for it in range(1500 if R.quick else 25000):
        ts, top = gen_graph(R.rnd)
        m = R.rnd.choice(['amr', 'amr', 'custom', 'default', 'miniamr'])
        for kind in ('decoded', 'markerless', 'aligned'):
            R.check('C11.inverse', {'triples': ts, 'top': top, 'kind': kind, 'model': m,
                                    'edit': R.rnd.randrange(4)})
        R.check('C11.nocollapse', {'triples': ts, 'top': top, 'model': m})
    # re-entrancies written before the definition of a reified node (forward references)
    for src in ['(a / alpha :ARG0 _ :ARG1-of (_ / have-mod-91 :ARG2 (b / beta :polarity -)))',
                '(a / alpha :ARG0 m :ARG1-of (m / have-mod-91~2 :ARG2 (b / beta)))',
                '(a / alpha :ARG1-of (m / have-mod-91 :ARG2 (b / beta)) :ARG0 m)',
                '(a / x :ARG0 l :ARG1-of (l / be-located-at-91 :ARG2 (p / park)))']:
        g = penman.decode(src, model=get_model('amr'))
        R.check('C11.nocollapse', {'triples': g.triples, 'top': g.top, 'model': 'amr'})
        R.check('C11.inverse', {'triples': g.triples, 'top': g.top, 'kind': 'decoded', 'model': 'amr'})
    for src in ['(a / x :mod~1 (b / y~2) :location-of~3 (c / z) :quant 1~4)',
                '(a / x :mod (_ / y :mod (_2 / z)))', '(a / x :mod b~e.1 :R (b / y))',
                '(a / x :loc-of (b / y))']:
        for m in ('amr', 'custom'):
            g = penman.decode(src, model=get_model(m))
            R.check('C11.inverse', {'triples': g.triples, 'top': g.top, 'kind': 'decoded', 'model': m})
    # reified-concept tops and nodes with other relations
    for src in ['(m / have-mod-91 :ARG1 (a / x) :ARG2 (b / y))',
                '(a / x :ARG1-of (m / have-mod-91 :ARG2 (b / y) :polarity -))',
                '(a / x :ARG1-of (m / have-mod-91 :ARG2 (b / y)) :R m)',
                '(a / x :ARG1-of (m / have-mod-91 :ARG2 (b / y)))']:
        g = penman.decode(src, model=get_model('amr'))
        for top in sorted(g.variables()):
            R.check('C11.nocollapse', {'triples': g.triples, 'top': top, 'model': 'amr'})


RUNNERS = {'C02': run_C02, 'C03': run_C03, 'C04': run_C04, 'C05': run_C05,
           'C06': run_C06, 'C10': run_C10, 'C11': run_C11, 'C12': run_C12,
           'C14': run_C14}
