"""Input generators for the bounded tier: bounded-exhaustive corpora over small
alphabets (the alphabets contain every case the property texts name) and
seeded random deep cases."""
import itertools

from .specs import split_role, split_atom, tree_vars


def has(model, r):
    import re
    return any(re.fullmatch(p, r) is not None for p in list(model.roles) + [model.top_role, model.concept_role])


def inv_role(model, r):
    return r[:-3] if (not has(model, r) and r.endswith('-of')) else r + '-of'


def canonical_inversion(model, r):
    return inv_role(model, inv_role(model, r)) == r


def tree_nodes(node):
    out = [node] if node[0] is not None else []
    for _, t in node[1]:
        if isinstance(t, tuple):
            out.extend(tree_nodes(t))
    return out


def wf_tree(node, model, noop=False):
    """C02's domain: each variable defined once, denoted triples pairwise
    distinct, roles in canonical inversion form, no inverted self-loop."""
    from .specs import reading
    ns = tree_nodes(node)
    vs = [n[0] for n in ns]
    if len(set(vs)) != len(vs) or node[0] is None:
        return False
    for v, bs in ns:
        for r, tg in bs:
            rr, _ = split_role(r)
            if rr != ':instance' and rr != '/':
                if not rr.startswith(':'):
                    return False
                if not canonical_inversion(model, rr):
                    return False
                if rr.endswith('-of') and not has(model, rr):
                    a = tg[0] if isinstance(tg, tuple) else split_atom(tg)[0]
                    if a == v:
                        return False
            if isinstance(tg, tuple) and tg[0] is None:
                return False
    try:
        rd = reading(node, model, noop)
    except Exception:
        return False
    ts = [t for t, _ in rd]
    if len(set(ts)) != len(ts):
        return False
    # one instance triple per variable (a concept written twice is ill-formed)
    inst = [t[0] for t in ts if t[1] == ':instance']
    if len(set(inst)) != len(inst):
        return False
    return True


# -- bounded-exhaustive trees --------------------------------------------------

def exhaustive_trees(vars_=('a', 'b', 'c'), concepts=(None, 'x', 'b', 'x~1'),
                     roles=(':R', ':R-of', ':S~2'),
                     atoms=('k', '"s"', '0', 'b~e.1', None),
                     max_nodes=3, max_depth=2, max_branches=2):
    """All trees with variables taken in depth-first order from *vars_*."""

    def nodes(idx, depth, budget):
        # yields (node, next_idx) for the node with variable vars_[idx]
        var = vars_[idx]
        for c in concepts:
            head = [] if c is None else [('/', c)]
            for nb in range(0, max_branches + 1):
                for bs, nxt in branches(nb, idx + 1, depth, budget):
                    yield (var, head + bs), nxt

    def branches(n, idx, depth, budget):
        if n == 0:
            yield [], idx
            return
        for r in roles:
            # atomic targets: atoms and references to any variable
            for a in list(atoms) + list(vars_[:max_nodes]):
                for rest, nxt in branches(n - 1, idx, depth, budget):
                    yield [(r, a)] + rest, nxt
            if depth < max_depth and idx < min(budget, len(vars_)):
                for sub, nxt in nodes(idx, depth + 1, budget):
                    for rest, nxt2 in branches(n - 1, nxt, depth, budget):
                        yield [(r, sub)] + rest, nxt2

    for node, _ in nodes(0, 0, max_nodes):
        yield node


TINY = dict(atoms=('k', None), concepts=(None, 'x'), roles=(':R', ':R-of'))


def random_small_tree(rnd, vars_=('a', 'b', 'c'), concepts=(None, 'x', 'b', 'x~1'),
                      roles=(':R', ':R-of', ':S~2'),
                      atoms=('k', '"s"', '0', 'b~e.1', None),
                      max_nodes=3, max_depth=2, max_branches=2):
    """A random member of the space enumerated by exhaustive_trees()."""
    idx = [0]

    def node(depth):
        var = vars_[idx[0]]
        idx[0] += 1
        c = rnd.choice(concepts)
        bs = [] if c is None else [('/', c)]
        for _ in range(rnd.randint(0, max_branches)):
            r = rnd.choice(roles)
            if depth < max_depth and idx[0] < min(max_nodes, len(vars_)) and rnd.random() < 0.4:
                bs.append((r, node(depth + 1)))
            else:
                bs.append((r, rnd.choice(list(atoms) + list(vars_[:max_nodes]))))
        return (var, bs)
    return node(0)


def corpus(R, n_random, rich=None, thorough_extra=True):
    """Tree corpus of the bounded tier: the complete space over a tiny alphabet
    (2 nodes, <=2 branches: 10 074 trees; thorough adds 3 nodes/depth 2 over a
    one-concept alphabet: 108 259 trees) plus *n_random* random members of the
    same space over the rich alphabets given in *rich*."""
    yield from exhaustive_trees(max_nodes=2, max_depth=1, max_branches=2, **TINY)
    if not R.quick and thorough_extra:
        yield from exhaustive_trees(max_nodes=3, max_depth=2, max_branches=2,
                                    atoms=('k',), concepts=('x',), roles=(':R', ':R-of'))
    rich = rich or {}
    for _ in range(n_random):
        yield random_small_tree(R.rnd, **rich)


def sample_stream(it, rnd, keep, stride_hint):
    """Stratified sample: keep about *keep* items of a long stream with a
    seed-dependent phase (every item has the same chance)."""
    if keep is None:
        yield from it
        return
    stride = max(1, stride_hint // keep)
    phase = rnd.randrange(stride)
    for i, x in enumerate(it):
        if i % stride == phase:
            yield x


# -- random deep trees -----------------------------------------------------------

ROLES_AMR = [':ARG0', ':ARG1', ':mod', ':op1', ':op2', ':op10', ':polarity',
             ':quant', ':location', ':ARG0-of', ':ARG1-of', ':location-of',
             ':consist-of', ':Mod', ':OP1', ':mod-of', ':domain-of', ':domain',
             ':consist-of-of', ':prep-on-behalf-of',
             # role names with an inversion suffix inside the name, not only at its end
             ':point-of-view', ':point-of-view-of', ':part-of-speech-of-of']


def random_tree(rnd, maxn=6, maxd=4, roles=ROLES_AMR, concept_p=0.8,
                prefix='v', concepts=('x', 'y', 'v1', '"s t"', 'have-mod-91',
                                      'be-located-at-91', '0', 'éa'),
                consts=('-', '1', '0', '"a b"', 'imperative', '0.0', '-1'),
                aligns=True):
    vars_ = []

    def al(options):
        return rnd.choice(options) if aligns else ''

    def node(d):
        v = '%s%d' % (prefix, len(vars_))
        vars_.append(v)
        bs = []
        if rnd.random() < concept_p:
            bs.append(('/', rnd.choice(concepts) + al(['', '', '~1', '~e.2,3', '~e.4,3', '~3,1,2'])))
        for _ in range(rnd.randint(0, 3)):
            r = rnd.choice(roles) + al(['', '', '~4', '~e.7', '~e.7,2', '~5,5'])
            k = rnd.random()
            if k < 0.4 and d < maxd and len(vars_) < maxn:
                bs.append((r, node(d + 1)))
            elif k < 0.6:
                # references (also forward ones, to nodes defined later, when vars_ grows)
                bs.append((r, rnd.choice(vars_ + [prefix + str(len(vars_))]) + al(['', '~5', '~e.1', '~v.2', '~e.9,8'])))
            else:
                bs.append((r, rnd.choice(consts) + al(['', '~6'])))
        return (v, bs)
    return node(0)


# -- small graphs ------------------------------------------------------------------

def small_triple_lists(srcs=('a', 'b'), roles=(':instance', ':R', ':R-of'),
                       tgts=('a', 'b', 'x', None, 0), maxlen=2):
    alltr = [(s, r, t) for s in srcs for r in roles for t in tgts]
    for n in range(0, maxlen + 1):
        for ts in itertools.product(alltr, repeat=n):
            yield list(ts)


def wf_graphs(rnd, n_vars, extra, roles=(':R', ':S'),
              consts=('k', '"s"', 0, 1.5, -1, 0.0, None, '0')):
    """All weakly connected well-formed graphs over *n_vars* variables with a
    spanning structure + *extra* more triples (enumerated)."""
    vs = ['a', 'b', 'c', 'd'][:n_vars]
    inst = [(v, ':instance', c) for v, c in zip(vs, ('x', 'y', 'a', None))]
    edge_opts = [(s, r, t) for s in vs for r in roles for t in vs]
    attr_opts = [(s, r, c) for s in vs for r in roles[:1] for c in consts]
    opts = edge_opts + attr_opts
    for k in range(0, extra + n_vars):
        for combo in itertools.combinations(opts, k):
            yield vs, inst + list(combo)


# ---- roles drawn from a model's own table ------------------------------------------------------------

def regex_samples(pattern):
    """a few strings of the language of a (simple) regular expression: for every repeat the minimum
    and one more, for every class its first and last member, every alternative once"""
    try:
        import re._parser as sre_parse
        import re._constants as sre_c
    except ImportError:  # pragma: no cover
        import sre_parse
        import sre_constants as sre_c

    def cls(items):
        out = []
        for op, av in items:
            if op is sre_c.LITERAL:
                out.append(chr(av))
            elif op is sre_c.RANGE:
                out += [chr(av[0]), chr(av[1])]
            elif op is sre_c.CATEGORY:
                out += {'CATEGORY_DIGIT': ['0', '9'], 'CATEGORY_WORD': ['a', '_'], 'CATEGORY_SPACE': [' ']}.get(str(av), ['x'])
        return out[:1] + out[-1:] if out else ['x']

    def seq(items):
        outs = ['']
        for op, av in items:
            if op is sre_c.LITERAL:
                alts = [chr(av)]
            elif op is sre_c.IN:
                alts = cls(av)
            elif op is sre_c.ANY or op is sre_c.NOT_LITERAL:
                alts = ['x', '-']
            elif op is sre_c.SUBPATTERN:
                alts = seq(av[3])
            elif op is sre_c.BRANCH:
                alts = [s for b in av[1] for s in seq(b)]
            elif op in (sre_c.MAX_REPEAT, sre_c.MIN_REPEAT):
                lo, hi, sub = av
                body = seq(sub)
                alts = []
                for n in sorted({lo, min(lo + 1, hi if hi is not sre_c.MAXREPEAT else lo + 1)}):
                    alts += [''] if n == 0 else [b * n for b in body[:2]]
            elif op is sre_c.AT:
                alts = ['']
            else:
                alts = ['x']
            alts = list(dict.fromkeys(alts))[:3]
            outs = [o + a for o in outs for a in alts][:12]
        return outs
    try:
        return list(dict.fromkeys(seq(list(sre_parse.parse(pattern)))))
    except Exception:
        return []


def model_roles(model, limit=400):
    """roles the model defines, drawn from its own table (every entry, patterns instantiated)"""
    import re
    out = []
    for key in getattr(model, 'roles', {}) or {}:
        for s in regex_samples(key):
            if re.match('^(?:%s)$' % key, s):
                out.append(s)
    return list(dict.fromkeys(out))[:limit]
