"""Bounded stand-in tier: shared infrastructure (runs under /venv/bin/python,
penman imported from the tree given by --repo, default /repo).

A *check* is a function ``fn(args) -> None | str``: ``args`` is a value built
only from str/int/float/None/bool/list/tuple/dict (+ the marker classes, see
``ser``), the result is ``None`` when the property clause holds on that input,
``'SKIP'`` when the input is outside the clause's domain, or a short
description of the failure.  Drivers enumerate inputs and call checks through
``Run.check``; a replay re-runs the same check function on the stored args.
"""
import hashlib
import json
import logging
import os
import random
import sys
import time

logging.disable(logging.CRITICAL)

CHECKS = {}          # name -> fn(args)
CLASSIFIERS = {}     # name -> fn(args, detail) -> finding id or None


def check(name):
    def deco(fn):
        CHECKS[name] = fn
        fn.check_name = name
        return fn
    return deco


def classifier(name):
    def deco(fn):
        CLASSIFIERS[name] = fn
        return fn
    return deco


# -- serialisation of inputs -------------------------------------------------

def ser(x):
    """Python value -> JSON-able structure (tuples are tagged)."""
    from penman.layout import Push, Pop
    from penman.surface import Alignment, RoleAlignment
    if x is None or isinstance(x, (bool, int, str)):
        return x
    if isinstance(x, float):
        return {'$f': repr(x)}
    if isinstance(x, tuple):
        return {'$t': [ser(y) for y in x]}
    if isinstance(x, list):
        return [ser(y) for y in x]
    if isinstance(x, dict):
        return {'$d': [[ser(k), ser(v)] for k, v in x.items()]}
    if isinstance(x, Push):
        return {'$push': ser(x.variable)}
    if isinstance(x, Pop):
        return {'$pop': 1}
    if isinstance(x, Alignment):
        return {'$aln': [list(x.indices), x.prefix]}
    if isinstance(x, RoleAlignment):
        return {'$raln': [list(x.indices), x.prefix]}
    raise TypeError('cannot serialise %r' % (x,))


def des(x):
    from penman.layout import Push, POP
    from penman.surface import Alignment, RoleAlignment
    if isinstance(x, list):
        return [des(y) for y in x]
    if isinstance(x, dict):
        if '$f' in x:
            return float(x['$f'])
        if '$t' in x:
            return tuple(des(y) for y in x['$t'])
        if '$d' in x:
            return {des(k): des(v) for k, v in x['$d']}
        if '$push' in x:
            return Push(des(x['$push']))
        if '$pop' in x:
            return POP
        if '$aln' in x:
            return Alignment(tuple(x['$aln'][0]), prefix=x['$aln'][1])
        if '$raln' in x:
            return RoleAlignment(tuple(x['$raln'][0]), prefix=x['$raln'][1])
        raise TypeError('bad payload %r' % (x,))
    return x


# -- models -------------------------------------------------------------------

MINI_AMR = {
    'roles': {
        ':ARG0': {}, ':ARG1': {}, ':accompanier': {}, ':domain': {},
        ':consist-of': {}, ':mod': {}, ':op[0-9]+': {},
    },
    'normalizations': {':mod-of': ':domain', ':domain-of': ':mod'},
    'reifications': [
        (':accompanier', 'accompany-01', ':ARG0', ':ARG1'),
        (':mod', 'have-mod-91', ':ARG1', ':ARG2'),
    ],
}


_NAMED_MODELS = {}


def get_model(name):
    """named models are long-lived (one object per name and process, as in real use, where one Model serves
    a whole corpus): an answer that depends on what the object was asked before then disagrees with the
    history-free reference readings; models given as tables are built afresh"""
    if isinstance(name, str):
        if name not in _NAMED_MODELS:
            _NAMED_MODELS[name] = _build_model(name)
        return _NAMED_MODELS[name]
    return _build_model(name)


def _build_model(name):
    from penman.model import Model
    if name == 'default':
        return Model()
    if name == 'amr':
        from penman.models import amr
        return amr.model
    if name == 'noop':
        from penman.models import noop
        return noop.model
    if name == 'miniamr':
        return Model(**MINI_AMR)
    if name == 'custom':
        return Model(roles={':R-of': {}, ':S': {}, ':loc': {}},
                     reifications=[(':loc', 'be-at-91', ':ARG1', ':ARG2')])
    if isinstance(name, dict):
        return Model(**des(name)) if '$d' in name else Model(**name)
    raise KeyError(name)


# -- run context ---------------------------------------------------------------

class Run:
    MAX_STORED = 4

    def __init__(self, prop, tier, seed):
        self.prop = prop
        self.tier = tier
        self.seed = seed
        self.rnd = random.Random(seed * 7919 + sum(map(ord, prop)))
        self.evals = 0
        self.skipped = 0
        self.distinct = set()
        self.samples = []
        self.per_check = {}
        self.failures = []
        self.fail_counts = {}
        self.t0 = time.time()
        self.notes = []
        self.ordinal = 0        # position of the current evaluation in this (deterministic) run
        self.stop_at = None     # history replay: stop after this evaluation and report it

    @property
    def quick(self):
        return self.tier == 'quick'

    def check(self, name, args, nontrivial=True):
        fn = CHECKS[name]
        self.ordinal += 1
        try:
            detail = fn(args)
        except RecursionError:
            detail = 'check raised RecursionError'
        except Exception as e:  # a check must never raise: it reports
            detail = 'check raised %s: %s' % (type(e).__name__, str(e)[:200])
        if self.stop_at is not None and self.ordinal == self.stop_at:
            raise StopRun({'check': name, 'args': ser(args), 'detail': detail})
        if detail == 'SKIP':
            self.skipped += 1
            return True
        self.evals += 1
        pc = self.per_check.setdefault(name, 0)
        self.per_check[name] = pc + 1
        if nontrivial:
            h = hashlib.blake2b(
                (name + json.dumps(ser(args), sort_keys=True, default=repr)).encode(),
                digest_size=8).digest()
            self.distinct.add(h)
        if pc < 2 and len(self.samples) < 12:
            self.samples.append({'check': name, 'args': ser(args)})
        if detail is not None:
            self.fail(name, args, detail)
            return False
        return True

    def fail(self, name, args, detail):
        cls = None
        if name in CLASSIFIERS:
            try:
                cls = CLASSIFIERS[name](args, detail)
            except Exception as e:
                cls = None
        key = (name, cls)
        n = self.fail_counts.get(key, 0)
        self.fail_counts[key] = n + 1
        if n < self.MAX_STORED:
            self.failures.append({'check': name, 'args': ser(args),
                                  'detail': detail, 'finding': cls, 'ordinal': self.ordinal})

    def result(self):
        return {
            'prop': self.prop, 'tier': self.tier, 'seed': self.seed,
            'evaluations': self.evals, 'skipped': self.skipped,
            'distinct_nontrivial': len(self.distinct),
            'per_check': self.per_check,
            'samples': self.samples,
            'failures': self.failures,
            'fail_counts': [[k[0], k[1], v] for k, v in self.fail_counts.items()],
            'notes': self.notes,
            'wall_s': round(time.time() - self.t0, 2),
        }


class Timeout(Exception):
    pass


class StopRun(Exception):
    """history replay reached the requested evaluation"""
    def __init__(self, outcome):
        Exception.__init__(self, 'stop')
        self.outcome = outcome


def with_watchdog(fn, seconds=5):
    import signal

    def _alarm(signum, frame):
        raise Timeout()
    old = signal.signal(signal.SIGALRM, _alarm)
    signal.alarm(seconds)
    try:
        return fn()
    finally:
        signal.alarm(0)
        signal.signal(signal.SIGALRM, old)


def canon_triples(ts):
    return sorted(((s, r, None if t is None else str(t)) for s, r, t in ts),
                  key=repr)
