"""Executable reference specifications, written from docs/notation.rst,
docs/structures.rst, docs/serialization.rst and the property texts -- never
from the implementation.  Used by the bounded tier as oracles and by the
replay step of the deductive tier."""
import re

BLANKS = ' \t\r\n\v\f'
NOTNAME = set(' \n\t\r\f\v"()/:~')
ALIGN_RE = re.compile(r'~(?:[a-zA-Z]\.?)?[0-9]+(?:,[0-9]+)*')


def split_universal(s):
    """Only LF, CRLF and CR end a line (C09)."""
    return re.split(r'\r\n|\r|\n', s)


def lexspec_line(line, lineno, triple=False):
    """The documented lexical grammar as a scanner over one line."""
    toks = []
    p = 0
    n = len(line)
    while p < n:
        c = line[p]
        if c in BLANKS:
            p += 1
            continue
        if c == '#':
            e = n - 1 if line.endswith('\n') else n
            toks.append(('COMMENT', line[p:e], lineno, p))
            p = e
            continue
        if c == '"':
            q = p + 1
            ok = False
            while q < n:
                d = line[q]
                if d == '"':
                    ok = True
                    break
                if d == '\\':
                    # StrEscape <- '\\' StrChar ; StrChar <- ![\n\r\f\v] .
                    if q + 1 < n and line[q + 1] not in '\n\r\f\v':
                        q += 2
                        continue
                    q += 1
                    continue
                if d in '\n\r\f\v':
                    break
                q += 1
            if ok:
                toks.append(('STRING', line[p:q + 1], lineno, p))
                p = q + 1
            else:
                toks.append(('UNEXPECTED', '"', lineno, p))
                p += 1
            continue
        if c == '(':
            toks.append(('LPAREN', c, lineno, p))
            p += 1
            continue
        if c == ')':
            toks.append(('RPAREN', c, lineno, p))
            p += 1
            continue
        if not triple:
            if c == '/':
                toks.append(('SLASH', c, lineno, p))
                p += 1
                continue
            if c == ':':
                q = p + 1
                while q < n and line[q] not in NOTNAME:
                    q += 1
                toks.append(('ROLE', line[p:q], lineno, p))
                p = q
                continue
            if c == '~':
                m = ALIGN_RE.match(line, p)
                if m:
                    toks.append(('ALIGNMENT', m.group(), lineno, p))
                    p = m.end()
                else:
                    toks.append(('UNEXPECTED', c, lineno, p))
                    p += 1
                continue
        else:
            if c in '/:~':
                toks.append(('UNEXPECTED', c, lineno, p))
                p += 1
                continue
        q = p
        while q < n and line[q] not in NOTNAME:
            q += 1
        toks.append(('SYMBOL', line[p:q], lineno, p))
        p = q
    return toks


def lexspec(s, triple=False):
    out = []
    for i, l in enumerate(split_universal(s), 1):
        out += lexspec_line(l, i, triple)
    return out


def lexspec_lines(lines, triple=False):
    out = []
    for i, l in enumerate(lines, 1):
        out += lexspec_line(l, i, triple)
    return out


class Err(Exception):
    def __init__(self, lineno, offset):
        self.lineno = lineno
        self.offset = offset


class Recogniser:
    """Recursive-descent recogniser of the documented PEG plus the documented
    robustness extensions, at token level.  Tokens are 4-tuples
    (type, text, lineno, offset)."""

    def __init__(self, toks):
        self.toks = toks
        self.i = 0
        self.last = None

    def eof(self):
        if self.last is None:
            raise Err(0, 0)
        raise Err(self.last[2], self.last[3] + len(self.last[1]))

    def peek(self):
        if self.i >= len(self.toks):
            self.eof()
        return self.toks[self.i]

    def more(self):
        return self.i < len(self.toks)

    def nxt(self):
        t = self.peek()
        self.i += 1
        self.last = t
        return t

    def expect(self, *ty):
        t = self.peek()
        if t[0] not in ty:
            raise Err(t[2], t[3])
        return self.nxt()

    def comments(self):
        meta = {}
        while self.peek()[0] == 'COMMENT':
            text = self.nxt()[1]
            meta.update(meta_of_comment(text))
        return meta

    def node(self):
        self.expect('LPAREN')
        if self.peek()[0] == 'RPAREN':
            self.nxt()
            return (None, [])
        var = self.expect('SYMBOL')[1]
        edges = []
        if self.peek()[0] == 'SLASH':
            self.nxt()
            if self.peek()[0] in ('SYMBOL', 'STRING'):
                c = self.nxt()[1]
                if self.peek()[0] == 'ALIGNMENT':
                    c += self.nxt()[1]
            else:
                c = None
            edges.append(('/', c))
        while self.peek()[0] != 'RPAREN':
            r = self.expect('ROLE')[1]
            if self.peek()[0] == 'ALIGNMENT':
                r += self.nxt()[1]
            t = self.peek()
            if t[0] in ('SYMBOL', 'STRING'):
                tg = self.nxt()[1]
                if self.peek()[0] == 'ALIGNMENT':
                    tg += self.nxt()[1]
            elif t[0] == 'LPAREN':
                tg = self.node()
            elif t[0] in ('ROLE', 'RPAREN'):
                tg = None
            else:
                raise Err(t[2], t[3])
            edges.append((r, tg))
        self.nxt()
        return (var, edges)

    def graph(self):
        meta = self.comments()
        return meta, self.node()

    def graphs(self):
        out = []
        while self.more() and self.peek()[0] in ('COMMENT', 'LPAREN'):
            out.append(self.graph())
        return out

    # triple conjunctions: Role '(' Source ',' Target? ')' ('^' ...)*
    def triples(self):
        out = []
        strip = False
        while True:
            role = self.expect('SYMBOL')[1]
            if strip and role.startswith('^'):
                role = role[1:]
            if not role.startswith(':'):
                role = ':' + role
            self.expect('LPAREN')
            sym = self.expect('SYMBOL')[1]
            source, comma, rest = sym.partition(',')
            target = None
            if rest:
                target = rest
            elif comma:
                if self.more() and self.peek()[0] in ('SYMBOL', 'STRING'):
                    target = self.nxt()[1]
            else:
                if self.more() and self.peek()[0] == 'SYMBOL':
                    t = self.nxt()
                    if t[1] == ',':
                        if self.more() and self.peek()[0] in ('SYMBOL', 'STRING'):
                            target = self.nxt()[1]
                    elif t[1].startswith(','):
                        target = t[1][1:]
                    else:
                        raise Err(t[2], t[3])
            self.expect('RPAREN')
            out.append((source, role, target))
            if self.more():
                t = self.peek()
                if t[0] != 'SYMBOL' or not t[1].startswith('^'):
                    break
                if t[1] == '^':
                    strip = False
                    self.nxt()
                else:
                    strip = True
            else:
                break
        return out


def meta_of_comment(text):
    """Metadata of one comment line: '# ::key value ::key2 value2'.
    Keys run to the first space; values to the next '::' (trailing blanks
    dropped).  Later keys on the same line win over earlier equal keys being
    overwritten in reading order."""
    meta = {}
    parts = text.split('::')
    for seg in parts[1:]:
        key, _, value = seg.partition(' ')
        meta[key] = value.rstrip()
    return meta


# ---------------------------------------------------------------------------
# Reading: the documented interpretation of a tree

def split_role(r):
    if r == '/':
        return ':instance', None
    if '~' in r:
        a, _, b = r.partition('~')
        return a, '~' + b
    return r, None


def split_atom(a):
    if a is None or not isinstance(a, str):
        return a, None
    if a.startswith('"'):
        i = a.rindex('"') + 1
        return a[:i], (a[i:] or None)
    if '~' in a:
        x, _, y = a.partition('~')
        return x, '~' + y
    return a, None


def role_defined(model, role):
    """independent reading of the role table (never the model's own _has_role)"""
    return any(re.fullmatch(p, role) is not None for p in list(model.roles) + [model.top_role, model.concept_role])


def is_inverted(model, role):
    return role.endswith('-of') and not role_defined(model, role)


def tree_vars(node):
    out = set()
    v, bs = node
    if v is not None:
        out.add(v)
    for _, t in bs:
        if isinstance(t, tuple):
            out |= tree_vars(t)
    return out


def norm_aln(a):
    """'~e.01,2' -> canonical text of the marker (indices are integers)."""
    body = a[1:]
    prefix = ''
    if body and body[0].isalpha():
        k = 2 if len(body) > 1 and body[1] == '.' else 1
        prefix = body[:k]
        body = body[k:]
    return '~' + prefix + ','.join(str(int(x)) for x in body.split(','))


def reading(node, model, noop=False):
    """[(triple, [marker strings])] in depth-first order."""
    variables = tree_vars(node)

    def rd(n):
        var, branches = n
        out = []
        has_concept = False
        for role, tgt in branches:
            r, ra = split_role(role)
            marks = []
            if ra:
                marks.append('R' + norm_aln(ra))
            if r == ':instance':
                has_concept = True
            if isinstance(tgt, tuple):
                tv = tgt[0]
                trip = (var, r, tv)
                if is_inverted(model, r) and not noop:
                    trip = (tv, r[:-3], var)
                marks.append('Push(%s)' % tv)
                sub = rd(tgt)
                sub[-1][1].append('POP')
                out.append((trip, marks))
                out.extend(sub)
            else:
                a, aa = split_atom(tgt)
                if aa:
                    marks.append('T' + norm_aln(aa))
                trip = (var, r, a)
                if is_inverted(model, r) and a in variables and not noop:
                    trip = (a, r[:-3], var)
                out.append((trip, marks))
        if not has_concept:
            out.insert(0, ((var, ':instance', None), []))
        return out
    return [((s, r if r.startswith(':') else ':' + r, t), m)
            for (s, r, t), m in rd(node)]


def marks_of(g, triple):
    from penman.layout import Push, Pop
    out = []
    for e in g.epidata.get(triple, []):
        if isinstance(e, Push):
            out.append('Push(%s)' % e.variable)
        elif isinstance(e, Pop):
            out.append('POP')
        elif getattr(e, 'mode', 0) == 1:
            out.append('R' + str(e))
        else:
            out.append('T' + str(e))
    return out


def connected(triples, top, variables):
    adj = {v: set() for v in variables}
    for s, r, t in triples:
        if r != ':instance' and t in adj and s in adj:
            adj[s].add(t)
            adj[t].add(s)
    if top not in adj:
        return False
    seen = {top}
    st = [top]
    while st:
        x = st.pop()
        for y in adj[x]:
            if y not in seen:
                seen.add(y)
                st.append(y)
    return seen == set(variables)
