"""Bounded drivers for C13, C15, C16."""
import collections
import copy
import itertools
import os
import re
import subprocess
import sys
import tempfile

import penman
from penman import transform
from penman.exceptions import GraphError
from penman.graph import Graph
from penman.model import Model
from penman.tree import Tree

from .base import check, classifier, get_model, with_watchdog, Timeout
from . import specs, gens


# =============================== C13 =========================================

def same_parity(a, b):
    lo, hi = (a, b) if len(a) <= len(b) else (b, a)
    return hi.startswith(lo) and re.fullmatch(r'(?:-of-of)*', hi[len(lo):]) is not None


def table(args):
    spec = args['table']
    if isinstance(spec, str):
        return get_model(spec), spec == 'noop'
    return Model(roles={r: {} for r in spec['roles']}, normalizations=dict(spec['norms'])), False


@check('C13.role')
def c13_role(args):
    m, noop = table(args)
    r = args['role']

    def has(role):
        # independent reading of the role table: a role is defined iff one of the model's role
        # patterns (or the top / concept role) matches it entirely
        return any(re.fullmatch(p, role) is not None for p in list(m.roles) + [m.top_role, m.concept_role])
    if m._has_role(r) != has(r) or m._has_role(r + '-of') != has(r + '-of'):
        return 'role table membership of %r or %r is wrong' % (r, r + '-of')
    try:
        c = with_watchdog(lambda: m.canonicalize_role(r), 3)
    except Timeout:
        return 'canonicalize_role(%r) did not terminate' % (r,)
    rc = r if (r == '/' or r.startswith(':')) else ':' + r
    norms = m.normalizations
    if m.canonicalize_role(c) != c:
        return 'not idempotent: %r -> %r -> %r' % (r, c, m.canonicalize_role(c))
    if r != '/' and not c.startswith(':') and not (norms.get(c) == c):
        if not any(v == c for v in norms.values()):
            return 'no leading colon: %r -> %r' % (r, c)
    ci = m._canonicalize_inversion(rc)
    if not same_parity(rc, ci):
        return 'inversions not removed in pairs: %r -> %r' % (rc, ci)
    if norms.get(ci, ci) != c:
        return 'normalisation not applied last: %r -> %r' % (r, c)
    if has(rc) and ci != rc:
        return 'defined role changed by canonicalisation: %r -> %r' % (rc, ci)
    if has(c) and m.is_role_inverted(c):
        return 'defined role %r considered inverted' % (c,)
    if m.is_role_inverted(c) != (c.endswith('-of') and not has(c)):
        return 'is_role_inverted(%r) wrong' % (c,)
    i1 = m.invert_role(c)
    i2 = m.invert_role(i1)
    if i2 != c:
        return 'invert_role not an involution on canonical %r: %r, %r' % (c, i1, i2)
    if m.is_role_inverted(i1) == m.is_role_inverted(c):
        return 'invert_role does not flip inverted-ness of %r (-> %r)' % (c, i1)
    t = ('s', c, 't')
    if m.invert(t) != ('t', m.invert_role(c), 's'):
        return 'invert does not swap source and target'
    d = m.deinvert(t)
    if noop:
        if d != t:
            return 'no-op model deinverted %r' % (t,)
    elif m.is_role_inverted(c):
        if d != m.invert(t):
            return 'deinvert of inverted triple != invert'
    elif d != t:
        return 'deinvert changed a non-inverted triple'
    if m.canonicalize(t) != ('s', m.canonicalize_role(c), 't'):
        return 'canonicalize(triple) wrong'
    hr = m.has_role(r)
    if hr != (has(r) or (r.endswith('-of') and has(r[:-3]))):
        return 'has_role(%r) wrong' % (r,)
    return None


@check('C13.model_table')
def c13_model_table(args):
    """a shipped model never defines a role together with its own inverse spelling (else inverting the
    role is no involution and an edge read back from its other end is a different edge)"""
    m = get_model(args['model'])
    r = args['role']
    if specs.role_defined(m, r) and specs.role_defined(m, r + '-of'):
        i1 = m.invert_role(r)
        return ('the %s model defines both %r and %r: invert_role(%r) = %r, invert_role of that = %r'
                % (args['model'], r, r + '-of', r, i1, m.invert_role(i1)))
    return None


@check('C13.terminates')
def c13_terminates(args):
    m, noop = table(args)
    try:
        with_watchdog(lambda: m.canonicalize_role(args['role']), 3)
    except Timeout:
        return 'canonicalize_role(%r) did not terminate' % (args['role'],)
    return None


@classifier('C13.role')
def c13_cls(args, detail):
    m, _ = table(args)
    r = args['role']
    rc = r if (r == '/' or r.startswith(':')) else ':' + r
    c = m.canonicalize_role(r)
    norms = m.normalizations
    # N6: a normalisation target that is itself normalisable or not canonical
    ci = m._canonicalize_inversion(rc)
    if ci in norms:
        tgt = norms[ci]
        if tgt in norms or m.canonicalize_role(tgt) != tgt or not tgt.startswith(':'):
            return 'N6'
    # N7: the model defines both r and r-of (recorded for role tables a user writes; a shipped model
    # that starts doing so is a new violation)
    if not isinstance(args['table'], dict):
        return None
    for x in (c, m.invert_role(c), rc):
        if m._has_role(x) and m._has_role(x + '-of'):
            return 'N7'
        if x.endswith('-of') and m._has_role(x) and m._has_role(x[:-3]):
            return 'N7'
    return None


@check('C13.tree')
def c13_tree(args):
    node = args['node']
    model = get_model(args['model'])
    t = Tree(node)
    try:
        t2 = transform.canonicalize_roles(t, model)
    except Exception as e:
        return 'raised %s' % type(e).__name__

    def cmp(a, b):
        if a[0] != b[0] or len(a[1]) != len(b[1]):
            return 'shape changed'
        for (r1, t1), (r2, t2_) in zip(a[1], b[1]):
            ra, _, al = r1.partition('~')
            rb, _, bl = r2.partition('~')
            if al != bl:
                return 'role alignment changed: %r -> %r' % (r1, r2)
            if rb != model.canonicalize_role(ra):
                return 'role %r -> %r, expected %r' % (r1, r2, model.canonicalize_role(ra))
            if isinstance(t1, tuple) != isinstance(t2_, tuple):
                return 'target kind changed'
            if isinstance(t1, tuple):
                x = cmp(t1, t2_)
                if x:
                    return x
            elif t1 != t2_:
                return 'target changed'
        return None
    x = cmp(node, t2.node)
    if x:
        return x
    if t2.metadata != t.metadata:
        return 'metadata changed'
    t3 = transform.canonicalize_roles(t2, model)
    if t3.node != t2.node:
        return 'tree canonicalisation not idempotent'
    return None


@classifier('C13.tree')
def c13_tree_cls(args, detail):
    return None


def run_C13(R):
    bases = ['', ':', 'a', ':a', ':b', ':c1', ':x', ':consist', ':prep-on-behalf', ':mod',
             ':domain', ':ARG0', '/', ':q', ':z', ':op1', ':ARG', 'mod', ':Mod', ':TOP',
             ':instance', 'instance', ':-of', '-of']
    tables = ['default', 'amr', 'noop', 'miniamr', 'custom']
    for tb in tables:
        for b in bases:
            for k in range(5):
                R.check('C13.role', {'table': tb, 'role': b + '-of' * k})
    # every role the shipped models define (patterns instantiated from the tables themselves), as written
    # and with one to three inversion suffixes
    for tb in ('amr', 'miniamr', 'custom', 'noop'):
        own = gens.model_roles(table({'table': tb})[0])
        for b in (own if not R.quick else R.rnd.sample(own, min(len(own), 40))):
            for k in range(4):
                R.check('C13.role', {'table': tb, 'role': b + '-of' * k})
        if tb == 'amr':
            for b in own:
                R.check('C13.model_table', {'model': tb, 'role': b})
    pool = [':a', ':b', ':a-of', ':b-of-of', ':c[0-9]', ':x-of', ':q.*', ':y-of-of-of', ':z-.*']
    for i in range(60 if R.quick else 600):
        roles = R.rnd.sample(pool, R.rnd.randint(0, 4))
        norms = []
        for _ in range(R.rnd.randint(0, 2)):
            norms.append([R.rnd.choice([':a-of', ':b-of', ':x', ':q', ':z-of']),
                          R.rnd.choice([':b', ':x-of', ':z', ':a', ':c1'])])
        for b in R.rnd.sample(bases, 8) + [':a', ':b', ':x', ':c1', ':y', ':q1']:
            for k in range(5):
                R.check('C13.role', {'table': {'roles': roles, 'norms': norms}, 'role': b + '-of' * k})
    # witnesses of the recorded findings N6 and N7 stay in the corpus
    R.check('C13.role', {'table': {'roles': [], 'norms': [[':a', ':b'], [':b', ':c']]}, 'role': ':a'})
    R.check('C13.role', {'table': {'roles': [':x', ':x-of'], 'norms': []}, 'role': ':x'})
    # pattern roles that also match the -of extensions (termination)
    for r in (':prep', ':prep-x', ':prep-of', ':p', ':prep-x-of-of'):
        R.check('C13.role', {'table': {'roles': [':prep-.*'], 'norms': []}, 'role': r})
        R.check('C13.role', {'table': {'roles': [':.*-of'], 'norms': []}, 'role': r})
        R.check('C13.terminates', {'table': {'roles': [':prep-.*'], 'norms': []}, 'role': r})
    for it in range(400 if R.quick else 6000):
        node = gens.random_tree(R.rnd, maxn=6, maxd=3,
                                roles=[':ARG0-of-of', ':mod-of', ':domain-of', 'ARG1', ':consist',
                                       ':consist-of-of', ':op1-of-of-of', ':x'])
        R.check('C13.tree', {'node': node, 'model': R.rnd.choice(['default', 'amr', 'miniamr', 'noop'])})


# =============================== C15 =========================================

def norm(r):
    return r if r.startswith(':') else ':' + r


C15_ATOMS = ['a', 'b', 'x', None, 0, 1.5, '1']
C15_TRS = [(s, r, t) for s in ('a', 'b') for r in (':instance', 'R', ':R') for t in C15_ATOMS]


@check('C15.queries')
def c15_queries(args):
    ts = [tuple(t) for t in args['triples']]
    top = args['top']
    g = Graph(ts, top=top)
    tn = [(s, norm(r), t) for s, r, t in ts]
    if g.triples != tn:
        return 'constructor did not normalise roles'
    vs = {s for s, _, _ in tn} | ({top} if top is not None else set())
    if g.variables() != vs:
        return 'variables wrong'
    if g.top != (top if top is not None else (tn[0][0] if tn else None)):
        return 'top wrong'
    inst = [t for t in tn if t[1] == ':instance']
    edges = [t for t in tn if t[1] != ':instance' and t[2] in vs]
    attrs = [t for t in tn if t[1] != ':instance' and t[2] not in vs]
    if [tuple(x) for x in g.instances()] != inst:
        return 'instances wrong'
    if [tuple(x) for x in g.edges()] != edges:
        return 'edges wrong'
    if [tuple(x) for x in g.attributes()] != attrs:
        return 'attributes wrong'
    for s_ in (None, 'a'):
        for r_ in (None, ':R', ':instance'):
            for t_ in (None, 'b', 'x'):
                def sel(lst):
                    return [t for t in lst if (s_ is None or t[0] == s_) and (r_ is None or t[1] == r_)
                            and (t_ is None or t[2] == t_)]
                if [tuple(x) for x in g.edges(source=s_, role=r_, target=t_)] != sel(edges):
                    return 'edges filter wrong'
                if [tuple(x) for x in g.attributes(source=s_, role=r_, target=t_)] != sel(attrs):
                    return 'attributes filter wrong'
    ent = collections.Counter()
    if g.top is not None:
        ent[g.top] += 1
    for t in edges:
        ent[t[2]] += 1
    if g.reentrancies() != {v: c - 1 for v, c in ent.items() if c >= 2}:
        return 'reentrancies wrong'
    for newtop in ('a', 'q', None):
        g1 = Graph(ts, top=top)
        try:
            g1.top = newtop
            if newtop is not None and newtop not in vs:
                return 'top %r accepted' % (newtop,)
            if g1.top != (newtop if newtop is not None else (tn[0][0] if tn else None)):
                return 'top after assignment wrong'
        except GraphError:
            if newtop is None or newtop in vs:
                return 'top %r refused' % (newtop,)
    if g.triples != tn:
        return 'queries changed the graph'
    return None


@check('C15.setops')
def c15_setops(args):
    ts = [tuple(t) for t in args['triples']]
    ts2 = [tuple(t) for t in args['triples2']]
    top, top2 = args['top'], args['top2']
    tn = [(s, norm(r), t) for s, r, t in ts]
    hn = [(s, norm(r), t) for s, r, t in ts2]
    g = Graph(ts, top=top, epidata={t: ['g%d' % i] for i, t in enumerate(tn)}, metadata={'k': 'v'})
    h = Graph(ts2, top=top2, epidata={t: ['h%d' % i] for i, t in enumerate(hn)})

    def st(x):
        return (list(x.triples), {k: list(v) for k, v in x.epidata.items()}, x._top, dict(x.metadata))
    before = (st(g), st(h))
    u = g | h
    d = g - h
    if (st(g), st(h)) != before:
        return 'operands changed by | or -'
    tnset = set(tn)
    exp_u = tn + [t for t in dict.fromkeys(hn) if t not in tnset] if False else tn + [t for t in hn if t not in tnset]
    if u.triples != exp_u:
        return 'union triples %r, expected %r' % (u.triples, exp_u)
    for t in hn:
        if t not in tnset and u.epidata.get(t) != h.epidata.get(t):
            return 'union did not carry markers of added triple %r' % (t,)
    for t in tn:
        if t not in set(hn) and u.epidata.get(t) != g.epidata.get(t):
            return 'union lost markers of %r' % (t,)
    if u._top != top:
        return 'union changed the top'
    exp_d = [t for t in tn if t not in set(hn)]
    if d.triples != exp_d:
        return 'difference triples wrong'
    occ = {x for t in d.triples for x in (t[0], t[2])}
    if d._top != (top if top in occ else None):
        return 'difference top %r' % (d._top,)
    if any(t in d.epidata for t in hn):
        return 'difference kept markers of removed triples'
    # in-place forms
    g2 = Graph(ts, top=top)
    r = g2.__ior__(h)
    if r is not g2 or g2.triples != exp_u:
        return '|= wrong'
    g3 = Graph(ts, top=top)
    r = g3.__isub__(h)
    if r is not g3 or g3.triples != exp_d:
        return '-= wrong'
    if st(h) != before[1]:
        return 'right operand changed by in-place op'
    return None


@check('C15.sequence')
def c15_sequence(args):
    """a short sequence of |, |=, -, -= over a few graphs against list-level reference semantics; after
    every step every graph that is not the receiver of an in-place form is what it was"""
    objs, ref = [], []
    for ts, top in args['graphs']:
        ts = [tuple(t) for t in ts]
        objs.append(Graph(ts, top=top, epidata={(s_, norm(r), t): ['m'] for s_, r, t in ts}))
        ref.append([[(s_, norm(r), t) for s_, r, t in ts], top])

    def occurs(top, ts):
        return any(top == t[0] or top == t[2] for t in ts)

    def state(i):
        return (list(objs[i].triples), objs[i]._top, {k: list(v) for k, v in objs[i].epidata.items()},
                dict(objs[i].metadata))
    for step, (op, dst, a, b) in enumerate(args['ops']):
        a, b = a % len(objs), b % len(objs)
        before = [state(i) for i in range(len(objs))]
        ta, tb = ref[a][0], ref[b][0]
        if op in ('or', 'ior'):
            nt = ta + [t for t in tb if t not in set(ta)]
            ntop = ref[a][1]
        else:
            nt = [t for t in ta if t not in set(tb)]
            ntop = ref[a][1] if occurs(ref[a][1], nt) else None
        try:
            if op == 'or':
                res = objs[a] | objs[b]
            elif op == 'sub':
                res = objs[a] - objs[b]
            elif op == 'ior':
                res = objs[a]
                res |= objs[b]
            else:
                res = objs[a]
                res -= objs[b]
        except Exception as e:
            return 'step %d (%s) raised %s' % (step, op, type(e).__name__)
        if op in ('or', 'sub'):
            if any(res is o for o in objs):
                return 'step %d: %s returned one of the existing graphs' % (step, op)
            untouched = range(len(objs))
            if dst < len(objs):
                objs[dst], ref[dst] = res, [nt, ntop]
                before[dst] = None
            else:
                objs.append(res)
                ref.append([nt, ntop])
        else:
            if res is not objs[a]:
                return 'step %d: in-place %s did not return the receiver' % (step, op)
            ref[a] = [nt, ntop]
            before[a] = None
        for i, b0 in enumerate(before):
            if b0 is not None and state(i) != b0:
                return 'step %d (%s): graph %d, not the receiver, changed: %r -> %r' % (step, op, i, b0[:2], state(i)[:2])
        k = dst if op in ('or', 'sub') and dst < len(before) else (len(objs) - 1 if op in ('or', 'sub') else a)
        if list(objs[k].triples) != ref[k][0] or objs[k]._top != ref[k][1]:
            return 'step %d (%s): result %r top %r, expected %r top %r' % (
                step, op, objs[k].triples, objs[k]._top, ref[k][0], ref[k][1])
    return None


def run_C15(R):
    for n in range(0, 3 if R.quick else 4):
        stream = itertools.product(C15_TRS, repeat=n)
        for ts in gens.sample_stream(stream, R.rnd, 4000 if R.quick else 60000, len(C15_TRS) ** n):
            for top in (None, 'a', 'q'):
                R.check('C15.queries', {'triples': list(ts), 'top': top}, nontrivial=n > 0)
    for it in range(3000 if R.quick else 50000):
        ts = [R.rnd.choice(C15_TRS) for _ in range(R.rnd.randint(0, 4))]
        ts2 = [R.rnd.choice(C15_TRS) for _ in range(R.rnd.randint(0, 3))]
        R.check('C15.setops', {'triples': ts, 'top': R.rnd.choice([None, None, 'a', 'b', 'x', 'q']),
                               'triples2': ts2, 'top2': R.rnd.choice([None, 'a'])})
    for it in range(3000 if R.quick else 50000):
        graphs = [([R.rnd.choice(C15_TRS) for _ in range(R.rnd.choice([0, 0, 1, 2, 3]))],
                   R.rnd.choice([None, None, 'a', 'b'])) for _ in range(3)]
        ops = [(R.rnd.choice(['or', 'ior', 'sub', 'isub']), R.rnd.randrange(4), R.rnd.randrange(5), R.rnd.randrange(5))
               for _ in range(R.rnd.randint(2, 4))]
        R.check('C15.sequence', {'graphs': graphs, 'ops': ops})


# =============================== C16 =========================================

def ref_errors(m, g):
    err = collections.defaultdict(list)
    if not g.triples:
        err[None].append('graph is empty')
        return dict(err)
    srcs = {t[0] for t in g.triples}
    for t in g.triples:
        if not (specs.role_defined(m, t[1]) or (t[1].endswith("-of") and specs.role_defined(m, t[1][:-3]))):
            err[t].append('invalid role')
    if not g.top:
        err[None].append('top is not set')
    elif g.top not in srcs:
        err[None].append('top is not a variable in the graph')
    else:
        adj = {v: set() for v in srcs}
        for s, r, t in g.triples:
            if t in adj:
                adj[s].add(t)
                adj[t].add(s)
        seen = {g.top}
        st = [g.top]
        while st:
            x = st.pop()
            for y in adj[x]:
                if y not in seen:
                    seen.add(y)
                    st.append(y)
        for t in g.triples:
            if t[0] not in seen:
                err[t].append('unreachable')
    return dict(err)


_SHARED = {}


def shared_model(name):
    """one long-lived instance per model name: a corpus is checked with one model object, so the
    answers must not depend on what that object was asked before"""
    if name not in _SHARED:
        _SHARED[name] = get_model(name)
    return _SHARED[name]


def table_roles(name):
    """roles around the model's own table: every entry as written (patterns instantiated), its stem
    when it ends in -of, and one or two inversions on top -- defined and undefined neighbours alike"""
    out = []
    for r in gens.model_roles(get_model(name)):
        out += [r, r + '-of', r + '-of-of']
        if r.endswith('-of'):
            out.append(r[:-3])
    return list(dict.fromkeys(out))


@check('C16.errors')
def c16_errors(args):
    ts = [tuple(t) for t in args['triples']]
    g = Graph(ts, top=args['top'])
    m = shared_model(args['model']) if args.get('shared') else get_model(args['model'])
    try:
        got = m.errors(g)
    except Exception as e:
        return 'raised %s' % type(e).__name__
    exp = ref_errors(m, g)
    if got != exp and {k: v for k, v in got.items()} != {k: v for k, v in exp.items()}:
        return 'errors %r, expected %r' % (got, exp)
    if any(sorted(set(v)) != sorted(v) and len(set(v)) != len(v) for v in got.values()):
        pass
    return None


@check('C16.decoded')
def c16_decoded(args):
    """a graph decoded from a text with a non-empty top node only gets role errors"""
    node = args['node']
    m = get_model(args['model'])
    from penman import layout
    if node[0] is None:
        return 'SKIP'
    ns = gens.tree_nodes(node)
    if len({n[0] for n in ns}) != len(ns):
        return 'SKIP'
    g = layout.interpret(Tree(node), m)
    for ctx, msgs in m.errors(g).items():
        for msg in msgs:
            if msg != 'invalid role':
                return 'decoded graph got error %r at %r' % (msg, ctx)
    return None


def cli_run(argv, stdin_text, cwd):
    env = dict(os.environ)
    env['PYTHONPATH'] = os.environ.get('VERIF_REPO', '/repo')
    r = subprocess.run([sys.executable, '-m', 'penman'] + argv, input=stdin_text,
                       capture_output=True, text=True, env=env, cwd=cwd, timeout=120)
    return r.returncode, r.stdout, r.stderr


GOOD = ['(a / alpha :ARG0 (b / beta))', '(c / chapter :mod 7)']
# B0/B1: role errors; B2: only a graph-level error (empty node: the top is not set)
BAD = ['(a / alpha :foo (b / beta))', '(a / alpha :ARG0 b :bar 1)', '()']


@check('C16.cli')
def c16_cli(args):
    files = args['files']      # list of lists of 'G0','B1', ...
    use_stdin = args.get('stdin', False)
    d = tempfile.mkdtemp(prefix='verif-c16-')
    try:
        paths = []
        nbad = []
        for i, content in enumerate(files):
            texts = [GOOD[int(c[1])] if c[0] == 'G' else BAD[int(c[1])] for c in content]
            p = os.path.join(d, 'f%d.txt' % i)
            with open(p, 'w') as f:
                f.write('\n\n'.join(texts) + ('\n' if texts else ''))
            paths.append(p)
            nbad.append(sum(1 for c in content if c[0] == 'B'))
        if use_stdin:
            rc, out, err = cli_run(['--amr', '--check'], open(paths[0]).read(), d)
            nb = nbad[:1]
        else:
            rc, out, err = cli_run(['--amr', '--check'] + paths, None, d)
            nb = nbad
        want = 1 if sum(nb) else 0
        if (rc != 0) != (want != 0):
            return 'exit status %d with %d non-compliant graphs in %r' % (rc, sum(nb), files)
        m = get_model('amr')
        gs = penman.loads(out, model=m)
        seq = [c for content in (files[:1] if use_stdin else files) for c in content]
        if len(gs) != len(seq):
            return 'expected %d graphs in output, got %d' % (len(seq), len(gs))
        for c, g in zip(seq, gs):
            errs = [k for k in g.metadata if k.startswith('error-')]
            src = penman.decode(GOOD[int(c[1])] if c[0] == 'G' else BAD[int(c[1])], model=m)
            exp = ref_errors(m, src)
            nexp = len(exp)
            if len(errs) != nexp:
                return 'graph %s: %d error-N entries, expected %d' % (c, len(errs), nexp)
            for trip in exp:
                if trip is not None:
                    txt = '(%s) ' % ' '.join(map(str, trip))
                    if not any(g.metadata[e].startswith(txt) for e in errs):
                        return 'offending triple %r not recorded' % (trip,)
        return None
    finally:
        for p in os.listdir(d):
            os.remove(os.path.join(d, p))
        os.rmdir(d)


def run_C16(R):
    TR2 = [(s, r, t) for s in ('a', 'b', 'c') for r in (':instance', ':ARG0', ':ARG0-of', ':foo', ':foo-of-of')
           for t in ('a', 'b', 'c', 'x', None)]
    for n in range(0, 3):
        stream = itertools.product(TR2, repeat=n)
        for ts in gens.sample_stream(stream, R.rnd, 2500 if R.quick else 6000, len(TR2) ** n):
            for top in (None, 'a', 'c', 'q', ''):
                for m in ('amr', 'default'):
                    R.check('C16.errors', {'triples': list(ts), 'top': top, 'model': m}, nontrivial=n > 0)
    for it in range(3000 if R.quick else 60000):
        ts = [R.rnd.choice(TR2) for _ in range(R.rnd.randint(3, 6))]
        R.check('C16.errors', {'triples': ts, 'top': R.rnd.choice([None, None, 'a', 'c', 'q', '']),
                               'model': R.rnd.choice(['amr', 'default', 'custom'])})
    # roles from the models' own tables with their neighbours (stem of a role defined with -of, extra
    # inversions), in random order on one long-lived model object per table
    for name in ('amr', 'custom', 'miniamr'):
        pool = table_roles(name)
        stems = [r for r in pool if r + '-of' in pool]
        for it in range(400 if R.quick else 6000):
            k = R.rnd.randint(2, 5)
            roles = [R.rnd.choice(pool) for _ in range(k)]
            if stems and R.rnd.random() < 0.6:
                r = R.rnd.choice(stems)
                pair = [r, r + '-of']
                R.rnd.shuffle(pair)
                roles += pair
            ts = [('a', ':instance', 'x')] + [(R.rnd.choice('ab'), r, R.rnd.choice(['a', 'b', 'x', '7'])) for r in roles]
            R.check('C16.errors', {'triples': ts, 'top': R.rnd.choice([None, 'a', 'b']), 'model': name, 'shared': True})
    for it in range(500 if R.quick else 8000):
        node = gens.random_tree(R.rnd, maxn=8, maxd=4, roles=gens.ROLES_AMR + [':foo', ':bar-of'])
        R.check('C16.decoded', {'node': node, 'model': R.rnd.choice(['amr', 'default'])})
    units = ['G0', 'B0', 'G1', 'B1']
    cases = [[['B0'], ['G0']], [['G0'], ['B0']], [['G0'], ['G1']], [['B0'], ['B1']],
             [['G0', 'B0'], ['G1']], [['B0', 'G0']], [['G0', 'B0']], [['G0']], [['B1']],
             [['B0'], ['G0'], ['G1']], [['G0'], ['B1'], ['G1']], [['G0'], ['G1'], ['B0']], [[], ['B0']],
             [['B0'], []], [['B0', 'B1']], [['B1', 'G0', 'B0']], [['G0', 'B0', 'B1', 'G1']],
             [['B0', 'B0'], ['B1']], [['B2']], [['G0', 'B2', 'G1']], [['G0'], ['B2']], [['B2'], ['G0']],
             [['B0', 'B2']]]
    if not R.quick:
        for k in (2, 3):
            for combo in itertools.product(units, repeat=k):
                cases.append([[c] for c in combo])
    for files in cases:
        R.check('C16.cli', {'files': files})
        R.check('C16.cli', {'files': files[:1], 'stdin': True})


RUNNERS = {'C13': run_C13, 'C15': run_C15, 'C16': run_C16}
