"""Entry point of the bounded tier (run under the interpreter that runs penman):

    python -m vlib.bounded.drv --prop C05 --tier quick --seed 0 [--out file]
    python -m vlib.bounded.drv --replay '<json of {check, args}>'
"""
import argparse
import json
import sys


def main():
    ap = argparse.ArgumentParser()
    ap.add_argument('--prop')
    ap.add_argument('--tier', default='quick')
    ap.add_argument('--seed', type=int, default=0)
    ap.add_argument('--out')
    ap.add_argument('--replay')
    a = ap.parse_args()
    sys.setrecursionlimit(max(sys.getrecursionlimit(), 3000))
    from . import base, d_text, d_layout, d_model, d_api
    runners = {}
    for m in (d_text, d_layout, d_model, d_api):
        runners.update(m.RUNNERS)
    if a.replay:
        payload = json.load(open(a.replay)) if not a.replay.lstrip().startswith('{') else json.loads(a.replay)
        if payload.get('history'):
            # the failing evaluation together with everything the same deterministic run evaluated before it
            h = payload['history']
            R = base.Run(h['prop'], h['tier'], h['seed'])
            R.stop_at = h['ordinal']
            try:
                runners[h['prop']](R)
                out = {'check': payload['check'], 'detail': None, 'finding': None, 'note': 'run ended before the evaluation'}
            except base.StopRun as e:
                out = {'check': e.outcome['check'], 'detail': e.outcome['detail'], 'finding': None,
                       'same_input': e.outcome['args'] == payload['args']}
            print(json.dumps(out))
            return 0 if out['detail'] in (None, 'SKIP') else 1
        fn = base.CHECKS[payload['check']]
        args = base.des(payload['args'])
        try:
            detail = fn(args)
        except Exception as e:
            detail = 'check raised %s: %s' % (type(e).__name__, e)
        cls = None
        if detail not in (None, 'SKIP') and payload['check'] in base.CLASSIFIERS:
            cls = base.CLASSIFIERS[payload['check']](args, detail)
        print(json.dumps({'check': payload['check'], 'detail': detail, 'finding': cls}))
        return 0 if detail in (None, 'SKIP') else 1
    R = base.Run(a.prop, a.tier, a.seed)
    runners[a.prop](R)
    res = R.result()
    js = json.dumps(res)
    if a.out:
        open(a.out, 'w').write(js)
    else:
        print(js)
    return 0


if __name__ == '__main__':
    sys.exit(main())
