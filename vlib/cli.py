"""./check <ID> [--tier quick|thorough] [--repo /repo] [--replay FILE]

Exit status: 0 property held on everything explored (known findings are
printed as KNOWN-FINDING lines); 1 violation (a `VIOLATION property=<id>
replay=<path>` line per violation); 2 undecided (an obligation could not be
decided: solver unknown/timeout, code left the verified subset); 3 error in
the machinery itself.
"""
import argparse
import hashlib
import json
import os
import subprocess
import sys
import time
import traceback

VERIF = os.path.dirname(os.path.dirname(os.path.abspath(__file__)))
PY_PENMAN = '/venv/bin/python'


def repo_state(repo):
    try:
        head = subprocess.run(['git', '-C', repo, 'rev-parse', 'HEAD'], capture_output=True, text=True).stdout.strip()
        dirty = subprocess.run(['git', '-C', repo, 'status', '--porcelain', '--', 'penman'], capture_output=True, text=True).stdout.strip()
    except Exception:
        head, dirty = '?', ''
    return head, bool(dirty)


def load_findings():
    p = os.path.join(VERIF, 'known_findings.json')
    if not os.path.exists(p):
        return []
    return json.load(open(p))['findings']


def run_bounded(prop, tier, seed, repo, timeout):
    out = os.path.join(VERIF, 'evidence', '.bounded-%s.json' % prop)
    if os.path.exists(out):
        os.remove(out)
    env = dict(os.environ, PYTHONPATH=repo + os.pathsep + VERIF, VERIF_REPO=repo,
               PYTHONDONTWRITEBYTECODE='1')
    env.pop('PYTHONHASHSEED', None)
    cmd = [PY_PENMAN, '-m', 'vlib.bounded.drv', '--prop', prop, '--tier', tier,
           '--seed', str(seed), '--out', out]
    r = subprocess.run(cmd, cwd=VERIF, env=env, capture_output=True, text=True, timeout=timeout)
    if r.returncode != 0 or not os.path.exists(out):
        raise RuntimeError('bounded driver failed (exit %s): %s' % (r.returncode, r.stderr[-2000:]))
    res = json.load(open(out))
    os.remove(out)
    return res


def run_sweep(targets, n, seed, repo, timeout=1800):
    env = dict(os.environ, PYTHONPATH=repo + os.pathsep + VERIF, PYTHONDONTWRITEBYTECODE='1', PYTHONHASHSEED='0')
    r = subprocess.run([PY_PENMAN, '-m', 'vlib.pyvc.sweep', json.dumps({'targets': targets, 'n': n, 'seed': seed})],
                       cwd=VERIF, env=env, capture_output=True, text=True, timeout=timeout)
    if r.returncode != 0 or not r.stdout.strip():
        raise RuntimeError('contract sweep failed (exit %s): %s' % (r.returncode, r.stderr[-1500:]))
    return json.loads(r.stdout.strip().splitlines()[-1])


def replay_bounded(payload, repo):
    env = dict(os.environ, PYTHONPATH=repo + os.pathsep + VERIF, VERIF_REPO=repo,
               PYTHONDONTWRITEBYTECODE='1')
    req = {'check': payload['check'], 'args': payload['args']}
    if payload.get('with_history') and payload.get('history'):
        req['history'] = payload['history']
    r = subprocess.run([PY_PENMAN, '-m', 'vlib.bounded.drv', '--replay', json.dumps(req)],
                       cwd=VERIF, env=env, capture_output=True, text=True, timeout=600)
    try:
        return json.loads(r.stdout.strip().splitlines()[-1])
    except Exception:
        return {'check': payload['check'], 'detail': 'replay crashed: ' + r.stderr[-500:], 'finding': None}


def write_replay(prop, name, payload):
    d = os.path.join(VERIF, 'replays', prop)
    os.makedirs(d, exist_ok=True)
    h = hashlib.sha1(json.dumps(payload, sort_keys=True, default=str).encode()).hexdigest()[:10]
    safe = ''.join(c if c.isalnum() or c in '._-' else '_' for c in name)[:80]
    p = os.path.join(d, '%s-%s.json' % (safe, h))
    with open(p, 'w') as f:
        json.dump(payload, f, indent=1, default=str)
    return p


def main(argv=None):
    ap = argparse.ArgumentParser()
    ap.add_argument('prop')
    ap.add_argument('--tier', default=os.environ.get('VERIF_TIER', 'quick'))
    ap.add_argument('--repo', default='/repo')
    ap.add_argument('--replay')
    ap.add_argument('--no-bounded', action='store_true')
    ap.add_argument('--no-proof', action='store_true')
    ap.add_argument('--no-evidence', action='store_true')
    a = ap.parse_args(argv)
    prop = a.prop
    tier = a.tier if a.tier in ('quick', 'thorough') else 'quick'
    try:
        seed = int(os.environ.get('VERIF_SEED', '0'))
    except ValueError:
        seed = 0
    t0 = time.time()
    try:
        if a.replay:
            return do_replay(prop, a.replay, a.repo)
        return do_check(prop, tier, seed, a, t0)
    except Exception:
        traceback.print_exc()
        print('ERROR property=%s internal error in the checking machinery' % prop)
        return 3


def do_replay(prop, path, repo):
    payload = json.load(open(path))
    if payload.get('kind') == 'bounded':
        r = replay_bounded(payload, repo)
        print(json.dumps(r, indent=1))
        if r['detail'] in (None, 'SKIP') and (payload.get('history') or {}).get('ordinal'):
            r2 = replay_bounded(dict(payload, with_history=True), repo)
            print(json.dumps(r2, indent=1))
            if r2['detail'] not in (None, 'SKIP') and r2.get('same_input'):
                print('REPLAY property=%s: reproduced only after the %d evaluations the run made before it '
                      '(history-dependent): %s' % (prop, payload['history']['ordinal'] - 1, r2['detail']))
                return 1
        if r['detail'] in (None, 'SKIP'):
            print('REPLAY property=%s: the input no longer fails' % prop)
            return 0
        print('REPLAY property=%s: reproduced: %s' % (prop, r['detail']))
        return 1
    if payload.get('kind') == 'sweep':
        r = run_sweep([payload['target']], payload['n'], payload['seed'], repo)
        hit = [f for f in r.get('failures', []) if f['clause'] == payload['clause']]
        print(json.dumps(hit[:1], indent=1)[:3000])
        if hit:
            print('REPLAY property=%s: reproduced: %s' % (prop, hit[0]['detail']))
            return 1
        print('REPLAY property=%s: the contract clause no longer fails on the generated inputs' % prop)
        return 0
    from vlib.pyvc import run as pv
    return pv.replay(prop, payload, repo)


def do_check(prop, tier, seed, a, t0):
    from vlib import props
    spec = props.PROPS[prop]
    findings = [f for f in load_findings() if prop in f['properties']]
    open_findings = {f['id']: f for f in findings if f['status'] == 'open'}
    violations = []      # (name, replay payload, suffix)
    undecided = []
    known_seen = {}
    head, dirty = repo_state(a.repo)

    # ---- deductive tier -----------------------------------------------------
    proof = None
    if not a.no_proof and spec.get('obligations'):
        from vlib.pyvc import run as pv
        proof = pv.run_property(prop, tier, a.repo, seed, open_findings)
        for v in proof['violations']:
            violations.append(v)
        undecided.extend(proof['undecided'])
        for fid, n in proof.get('known_seen', {}).items():
            known_seen[fid] = known_seen.get(fid, 0) + n

    # ---- native contract sweep (dynamic, bounded): every contract of the unit is also executed on
    # the real functions; finds concrete failing inputs where the solvers leave an obligation open, and
    # cross-checks the verifier on the unchanged tree
    sweep = None
    if proof is not None and not a.no_bounded:
        # every function under contract in this run (the unit and the callees whose contracts it relies on)
        targets = [k for k in spec['obligations'] if not k.startswith('lemma:')]
        for f in proof.get('functions', []):
            nm = f.get('name', '')
            if nm.startswith('penman.') and ':' in nm and ' ' not in nm and nm not in targets:
                targets.append(nm)
        sweep = run_sweep(targets, 40 if tier == 'quick' else 600, seed, a.repo)
        for f in sweep.get('failures', []):
            violations.append({'name': '%s:%s' % (f['target'].split(':')[1], f['clause']), 'kind': 'sweep',
                               'target': f['target'], 'clause': f['clause'], 'seed': seed,
                               'n': 40 if tier == 'quick' else 600, 'args': f.get('args'), 'model': f.get('model'),
                               'detail': 'contract executed on the real function: %s' % f['detail'], 'suffix': ''})

    # ---- bounded stand-in -----------------------------------------------------
    bounded = None
    if not a.no_bounded and spec.get('bounded', True):
        bounded = run_bounded(prop, tier, seed, a.repo, 3000 if tier == 'quick' else 14000)
        for f in bounded['failures']:
            fid = f.get('finding')
            if fid and fid in open_findings:
                continue
            violations.append({
                'name': f['check'], 'kind': 'bounded', 'check': f['check'], 'args': f['args'],
                'detail': f['detail'], 'suffix': '',
                # where in the deterministic run it failed: a failure that needs the evaluations before it
                # (state left behind in a long-lived object or module) is replayed with that prefix
                'history': {'prop': prop, 'tier': tier, 'seed': seed, 'ordinal': f.get('ordinal')}})
        for chk, fid, n in bounded['fail_counts']:
            if fid and fid in open_findings:
                known_seen[fid] = known_seen.get(fid, 0) + n

    # ---- known findings: replay each witness; print only while it fails ------------
    for fid, f in open_findings.items():
        w = f.get('witness')
        still = None
        if w and w.get('kind') == 'bounded':
            r = replay_bounded(w, a.repo)
            still = r['detail'] not in (None, 'SKIP')
        elif w and w.get('kind') == 'obligation':
            still = proof is not None and fid in (proof.get('known_witness_fails') or {})
            if proof is None:
                still = None
        if still:
            print('KNOWN-FINDING: property=%s %s: %s' % (prop, fid, f['what']))
        elif still is False:
            print('NOTE property=%s finding %s is listed as open but its witness no longer fails' % (prop, fid))

    # ---- regression witnesses of repaired findings (a fixed entry suppresses nothing)
    for f in findings:
        w = f.get('regression_witness')
        if f['status'] == 'fixed' and w and w.get('kind') == 'bounded' and not a.no_bounded:
            r = replay_bounded(w, a.repo)
            if r['detail'] not in (None, 'SKIP'):
                violations.append({'name': w['check'], 'kind': 'bounded', 'check': w['check'],
                                   'args': w['args'], 'suffix': '',
                                   'detail': 'regression of repaired finding %s: %s' % (f['id'], r['detail'])})

    # ---- report -----------------------------------------------------------------------
    seen = set()
    nviol = 0
    for v in violations:
        key = (v['name'], json.dumps(v.get('args'), sort_keys=True, default=str)[:400])
        if key in seen:
            continue
        seen.add(key)
        nviol += 1
        payload = dict(v)
        payload.update({'property': prop, 'repo_head': head, 'repo_dirty': dirty,
                        'replay_cmd': './check %s --replay <this file>' % prop})
        path = write_replay(prop, v['name'], payload)
        line = 'VIOLATION property=%s replay=%s' % (prop, path)
        info = ' obligation=%s' % v['name'] if v.get('kind') in ('obligation', 'sweep') else ' check=%s' % v['name']
        if v.get('kind') == 'sweep':
            info += ' check=contract-sweep'
        print(line + info + ((' ' + v['suffix']) if v.get('suffix') else ''))
        print('  detail: %s' % str(v.get('detail'))[:300])
    for u in undecided:
        print('UNDECIDED property=%s obligation=%s reason=%s' % (prop, u['name'], u['reason']))

    if not a.no_evidence:
        from vlib import evidence
        evidence.write(prop, tier, seed, spec, proof, bounded, nviol, known_seen, undecided,
                       time.time() - t0, head, dirty, sweep=sweep)
    if nviol:
        return 1
    if undecided:
        return 2
    print('OK property=%s tier=%s%s%s' % (
        prop, tier,
        ' obligations=%d/%d' % (proof['discharged'], proof['obligations']) if proof else '',
        ' bounded_evaluations=%d' % bounded['evaluations'] if bounded else ''))
    return 0


if __name__ == '__main__':
    sys.exit(main())
