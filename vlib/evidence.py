"""Write /verif/evidence/<id>.json (validated against the schema before exit)."""
import json
import os

VERIF = os.path.dirname(os.path.dirname(os.path.abspath(__file__)))
SCHEMA = '/root/.vp/EVIDENCE.schema.json'


def write(prop, tier, seed, spec, proof, bounded, nviol, known_seen, undecided, wall, head, dirty, sweep=None):
    cov = {}
    assumptions = []
    level = spec['level']
    if proof and proof['obligations'] == 0:
        level = 'exploration'
    if bounded:
        cov.update({
            'evaluations': bounded['evaluations'],
            'distinct_nontrivial': bounded['distinct_nontrivial'],
            'rule': spec['rule'],
            'samples': bounded['samples'][:8],
            'bounded': {'label': 'bounded stand-in (never counted as proved)',
                        'per_check': bounded['per_check'], 'skipped_out_of_domain': bounded['skipped'],
                        'wall_s': bounded['wall_s'], 'failures_by_class': bounded['fail_counts']},
        })
        assumptions.append('bounded tier: the clauses it decides hold only up to the stated bound')
    if proof:
        cov.update({
            'obligations': proof['obligations'],
            'discharged': proof['discharged'],
            'checker_cmd': proof['checker_cmd'],
            'trusted_base': proof['trusted_base'],
            'functions_under_contract': proof['functions'],
            'solver_seconds': proof['solver_seconds'],
            'by_backend': proof['by_backend'],
            'confirmed_by_second_solver': proof.get('confirmed_by_second_solver'),
            'demoted': proof.get('demoted', []),
            'vacuity_checks': proof.get('vacuity', {}),
            'obligation_samples': proof['samples'][:10],
        })
        if not bounded:
            cov['samples'] = proof['samples'][:10]
            cov.setdefault('evaluations', proof['obligations'])
            cov.setdefault('distinct_nontrivial', proof['obligations'])
        assumptions.extend(proof.get('assumptions', []))
    if sweep:
        cov['contract_sweep'] = {
            'label': 'every contract of the unit executed on the real functions with generated arguments '
                     '(dynamic cross-check of contracts and verifier; bounded, never counted as proved)',
            'evaluations': sweep.get('evaluations'), 'skipped_by_precondition': sweep.get('skipped'),
            'per_function': sweep.get('per_target'), 'failures': len(sweep.get('failures', [])),
            'not_generated': sweep.get('unsupported')}
    cov['explanation'] = spec.get('explanation') or (
        'Deciding step: ' + ('proof obligations generated from the real source and discharged by SMT solvers'
                             if proof and proof['obligations'] else 'bounded stand-in only')
        + ('; plus a bounded stand-in for the clauses outside deductive reach' if proof and bounded else ''))
    cov['known_findings_seen'] = known_seen
    cov['undecided'] = [u['name'] for u in undecided]
    cov['repo_head'] = head
    cov['repo_dirty'] = dirty
    ev = {'property_id': prop, 'tier': tier, 'seed': seed, 'level': level, 'coverage': cov,
          'assumptions': assumptions, 'wall_s': round(wall, 2), 'violations': nviol}
    try:
        import jsonschema
        jsonschema.validate(ev, json.load(open(SCHEMA)))
    except ImportError:
        pass
    os.makedirs(os.path.join(VERIF, 'evidence'), exist_ok=True)
    with open(os.path.join(VERIF, 'evidence', prop + '.json'), 'w') as f:
        json.dump(ev, f, indent=1, default=str)
    return ev
