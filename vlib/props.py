"""Registry: what decides each property.  `obligations` names the contract
units (vlib/pyvc/units.py) whose proof obligations belong to the property;
`bounded` says whether a bounded stand-in driver exists."""

PROPS = {}


def _p(pid, title, rule, obligations=(), level='exploration', bounded=True, explanation='', **kw):
    PROPS[pid] = {'id': pid, 'title': title, 'rule': rule, 'obligations': list(obligations),
                  'level': level, 'bounded': bounded, 'explanation': explanation}
    PROPS[pid].update(kw)


_p('C01', 'text <-> tree lossless',
   'bounded: exhaustive small trees (<=3 nodes, depth<=2, <=2 branches) sampled by stride + seeded random deep trees x indent {None,-1,0,1,2,3,7} x compact; all strings <=4/5 over 13 symbols for the fixed-point clause. A case is non-trivial when its input is not the empty tree/string; distinct = distinct (check, input) hashes')
_p('C02', 'decode then encode reproduces the layout',
   'bounded: stride sample of the exhaustive corpus of trees (<=3 nodes, depth<=2, <=2 branches over concept/role/atom alphabets incl. re-entrancies, cycles, aligned atoms) x models + seeded random deep trees (<=25 nodes, depth<=8); only well-formed trees count; distinct = distinct (check,input) hashes')
_p('C03', 'graph survives encode/decode from any top',
   'bounded: all connected well-formed graphs over 2 variables with <=3 extra triples and a stride sample over 3 variables, every variable as top, given/reversed/shuffled order; decoded random graphs with/without markers; distinct = distinct (check,input) hashes')
_p('C04', 'decoding yields the documented reading',
   'bounded cross-check of the Reading spec: stride sample of exhaustive trees + seeded random ill-formed trees (duplicate variables, duplicate branches, over-inverted roles) x 4 models')
_p('C05', 're-layout never changes the graph',
   'bounded: seeded random trees x keys {none, original, alphanumeric, canonical, random} x attributes_first x new tops x models; reference sort keys are independent re-implementations')
_p('C06', 'markers never change content; encoding total',
   'bounded: seeded marker edit histories (1-4 edits from drop/clear/push/pop/swap/permute/reverse/move/strip) on a 13-graph corpus and random decoded graphs x tops (thorough: all single edits); all triple lists <=2 (thorough <=3, sampled) over a small alphabet x 4 tops for LayoutError iff disconnected')
_p('C07', 'parser accepts exactly the documented language',
   'bounded: all strings <=4 (thorough 5) over 16 symbols for parse/iterparse/parse_triples vs the executable recogniser G o LexSpec (acceptance, tree, line, column); all token sequences <=5/6; seeded mutations of valid texts; nesting 50/199/200')
_p('C08', 'tokens tile the input',
   'bounded: all strings <=3 (thorough 4) over a 26-symbol alphabet, both patterns, vs LexSpec (type,text,line,column) and the tiling predicate; seeded longer strings; list-of-lines container')
_p('C09', 'same graphs in every container',
   'bounded: seeded sequences of 0-3 corpus graphs with metadata x 6 containers x indents x separators; newline/separator characters in str vs file input')
_p('C10', 'relabelling is an isomorphism',
   'bounded: seeded random trees and a stride sample of exhaustive trees x 7 formats; first-fit names, consistent relabelling incl. aligned references, isomorphism of readings')
_p('C11', 'reify/dereify are mutually inverse',
   'bounded: seeded random AMR-inventory graphs (decoded, marker-less, aligned) x models {amr, custom, default, miniamr}: no reifiable role left, fresh variables, top kept, identical text after dereify(reify(g)); never-collapse clause on reified-concept tops')
_p('C12', 'transformations return well-formed graphs',
   'bounded: seeded random graphs x kinds {marker-less, decoded, edited, aligned} x programs of 1-4 transforms (<=1 indicate-branches) x models; no raise, same top, well-formed, connected, decodes to itself; contraction / top-role clauses')
_p('C13', 'role algebra under every model',
   'bounded cross-check: roles base + k x "-of" (k<=4) over 24 bases x shipped tables + seeded random tables with normalisation chains; trees for the tree clause')
_p('C14', 'layout diagnostics agree with the text',
   'bounded: seeded random trees (<=12 nodes, depth<=6) + stride sample of exhaustive trees x {default, amr}: contexts, pushed variables, appears-inverted vs the tree; marker-less graphs do not raise')
_p('C15', 'graph queries partition; set algebra',
   'bounded cross-check: all triple lists <=2 (thorough 3, sampled) over a 42-triple alphabet x tops; seeded pairs for | |= - -=')
_p('C16', 'model checking sound and complete; --check',
   'bounded: triple lists <=2 exhaustive/sampled + seeded longer ones x tops x models vs reference reachability; decoded graphs only get role errors; penman --check subprocess runs over orderings of compliant/non-compliant files and stdin')
_p('C17', 'calls are pure and deterministic',
   'bounded: argument snapshots before/after 23 API calls, repeated and interleaved call sequences, worker processes under PYTHONHASHSEED values, CLI byte identity across hash seeds')
_p('C18', 'constant quoting/evaluation/typing',
   'bounded: all strings <=3 (thorough 4) over a 22-symbol alphabet incl. control characters and line separators + seeded random unicode for quote; all atom texts <=4 (thorough 5) over 11 symbols + a corpus of edge cases for evaluate/type')
_p('C19', 'triple conjunction round-trips',
   'bounded: seeded random triple lists (symbols, numbers, quoted strings with commas/parentheses/^) x indent x all documented spacing variants')
_p('C20', 'command equals the library pipeline',
   'bounded: python -m penman subprocess vs the library pipeline over option subsets (every flag alone, thorough: all pairs, random subsets) x models {default, --amr, --noop, --model file} x formats x stdin/one file/several files; byte idempotence; plain run decodes to the same graphs')


# ---- which properties have a deductive part (vlib/pyvc/units.py) and what it decides ------------
def _attach():
    from vlib.pyvc import units
    for pid, u in units.UNITS.items():
        PROPS[pid]['obligations'] = (list(u.get('functions', [])) + list(u.get('thorough_functions', []))
                                     + ['lemma:' + x for x in u.get('lemmas', [])]
                                     + ['regex:' + x for x in u.get('regex', [])])
        PROPS[pid]['level'] = u.get('level', 'other')
        PROPS[pid]['explanation'] = u.get('explanation', '')
        for k in ('level_text', 'level_note', 'technique'):
            if k in u:
                PROPS[pid][k] = u[k]


_attach()
