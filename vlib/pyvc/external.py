"""Assumed contracts of functions outside /repo (trusted base T4: json).

json.loads(s, parse_constant=str) on a text s without surrounding blanks, per the json module
documentation (RFC 8259 grammar; NaN / Infinity / -Infinity go through parse_constant):
  * it either raises JSONDecodeError (json_ok(s) false) or returns json_val(s);
  * bool only for 'true'/'false', None only for 'null';
  * int only for the integer grammar, float only for the number grammar;
  * str only for a JSON string literal or for NaN/Infinity/-Infinity (parse_constant=str);
  * everything else it can return is a list or a dict (modelled as VList / VObj).
Known deviation of CPython recorded as N3: ValueError for integers above the digit limit and
RecursionError for deep nesting are not modelled (the contract of evaluate excludes them)."""
import z3

from . import values as vl
from . import regex as rx

json_ok = z3.Function('json_ok', vl.String, vl.Bool)
json_val = z3.Function('json_val', vl.String, vl.Val)
json_dumps_raw = z3.Function('json_dumps_raw', vl.String, vl.String)

INT = '-?(0|[1-9][0-9]*)'
NUM = '-?(0|[1-9][0-9]*)(\\.[0-9]+)?([eE][+-]?[0-9]+)?'


def json_string_re():
    """JSON string literals: '"' (unescaped char | escape)* '"' (control characters excluded)"""
    plain = z3.Diff(z3.AllChar(rx.RE), z3.Union(rx.ch('"'), rx.ch('\\'), z3.Range(chr(0), chr(0x1f))))
    hexd = z3.Union(z3.Range('0', '9'), z3.Range('a', 'f'), z3.Range('A', 'F'))
    esc = z3.Concat(rx.ch('\\'), z3.Union(rx.char_class('"\\/bfnrt'), z3.Concat(rx.ch('u'), z3.Loop(hexd, 4, 4))))
    return z3.Concat(rx.ch('"'), z3.Star(z3.Union(plain, esc)), rx.ch('"'))


def json_dumps_ascii_re():
    """the output language of json.dumps(str) with ensure_ascii=True: printable ASCII except quote and
    backslash, or an escape"""
    plain = z3.Diff(z3.Range(chr(0x20), chr(0x7e)), z3.Union(rx.ch('"'), rx.ch('\\')))
    hexd = z3.Union(z3.Range('0', '9'), z3.Range('a', 'f'))
    esc = z3.Concat(rx.ch('\\'), z3.Union(rx.char_class('"\\bfnrt'), z3.Concat(rx.ch('u'), z3.Loop(hexd, 4, 4))))
    return z3.Concat(rx.ch('"'), z3.Star(z3.Union(plain, esc)), rx.ch('"'))


def loads_axioms(s):
    """instances of the assumed contract of json.loads for the text s"""
    v = json_val(s)
    ok = json_ok(s)
    isnum = z3.InRe(s, rx.from_python(NUM))
    isint = z3.InRe(s, rx.from_python(INT))
    return [
        z3.Implies(z3.And(ok, vl.is_bool(v)), z3.Or(s == z3.StringVal('true'), s == z3.StringVal('false'))),
        z3.Implies(z3.And(ok, vl.is_none(v)), s == z3.StringVal('null')),
        z3.Implies(z3.And(ok, vl.is_int(v)), isint),
        z3.Implies(z3.And(ok, vl.is_float(v)), isnum),
        z3.Implies(z3.And(ok, vl.is_str(v)),
                   z3.Or(z3.InRe(s, json_string_re()), s == z3.StringVal('NaN'), s == z3.StringVal('Infinity'),
                         s == z3.StringVal('-Infinity'))),
        z3.Implies(ok, z3.Or(vl.is_bool(v), vl.is_none(v), vl.is_int(v), vl.is_float(v), vl.is_str(v),
                             vl.is_list(v), vl.is_obj(v))),
        # parse_constant=str: the three constants come back as their own text
        z3.Implies(z3.And(ok, z3.Or(s == z3.StringVal('NaN'), s == z3.StringVal('Infinity'), s == z3.StringVal('-Infinity'))),
                   v == vl.VStr(s)),
        # a text that starts with a quote is a string literal or nothing
        z3.Implies(z3.And(ok, z3.PrefixOf(z3.StringVal('"'), s)), vl.is_str(v)),
        z3.Implies(z3.And(ok, z3.Or(vl.is_list(v), vl.is_obj(v))),
                   z3.Or(z3.PrefixOf(z3.StringVal('['), s), z3.PrefixOf(z3.StringVal('{'), s))),
    ]
