"""Reference implementations used as the *native* meaning of uninterpreted specification functions in
bounded contracts (executed by the contract sweep under /venv/bin/python; never read by the
verification-condition generator).  Written from the documentation and the property statements, not
from the code they are compared with; they call nothing of penman but the marker classes."""
import collections


def _cls(e):
    return type(e).__name__


def first_push(markers):
    for e in markers:
        if _cls(e) == 'Push':
            return e.variable
    return None


def contexts(g):
    """node context of every triple (layout.node_contexts): a stack of open nodes, starting with the
    top; a triple belongs to the innermost open node if that is its source, or its target when the
    triple is an edge; a Push on the triple opens a node after it, every Pop closes one.  From the
    first triple that does not fit (or once more nodes were closed than opened) the context is
    unknown: None."""
    variables = set(t[0] for t in g.triples)
    if g._top is not None:
        variables.add(g._top)
    top = g._top if g._top is not None else (g.triples[0][0] if g.triples else None)
    out = [None] * len(g.triples)
    stack = [top]
    for i, t in enumerate(g.triples):
        if not stack:
            break
        cur = stack[-1]
        if not (cur == t[0] or (t[1] != ':instance' and t[2] in variables and cur == t[2])):
            break
        out[i] = cur
        ms = g.epidata.get(t, [])
        p = first_push(ms)
        if p:
            stack.append(p)
        npop = sum(1 for e in ms if _cls(e) == 'Pop')
        if npop > len(stack):
            break
        del stack[len(stack) - npop:]
    return out


def inverted(g, triple):
    """layout.appears_inverted as documented: never for instance triples and attributes; an edge with
    a Push marker appears inverted iff the pushed variable is its source; an edge without one iff
    its target is the node context of its first occurrence (while contexts are known)."""
    variables = set(t[0] for t in g.triples)
    if g._top is not None:
        variables.add(g._top)
    if triple[1] == ':instance' or triple[2] not in variables:
        return False
    p = first_push(g.epidata.get(triple, []))
    if p is not None:
        return p == triple[0]
    for ctx, t in zip(contexts(g), g.triples):
        if ctx is None:
            return False
        if t == triple:
            return triple[2] == ctx
    return False


def errors(model, g):
    """the error report as property C16 states it"""
    err = collections.defaultdict(list)
    if not g.triples:
        err[None].append('graph is empty')
        return dict(err)
    srcs = {t[0] for t in g.triples}
    top = g._top if g._top is not None else g.triples[0][0]
    for t in g.triples:
        if not model.has_role(t[1]):          # (has_role has its own, proved, contract)
            err[t].append('invalid role')
    if not top:
        err[None].append('top is not set')
    elif top not in srcs:
        err[None].append('top is not a variable in the graph')
    else:
        adj = {v: set() for v in srcs}
        for s, r, t in g.triples:
            if t in adj:
                adj[s].add(t)
                adj[t].add(s)
        seen, todo = {top}, [top]
        while todo:
            x = todo.pop()
            for y in adj[x]:
                if y not in seen:
                    seen.add(y)
                    todo.append(y)
        for t in g.triples:
            if t[0] not in seen:
                err[t].append('unreachable')
    return dict(err)
