"""Counter-model decoding and native replay.

A `sat` obligation yields a z3 model.  The function's *entry* arguments are
decoded into Python values (an uninterpreted role table becomes a real
``Model`` whose role regex agrees with the model on every string the solver
mentions), the real function is run natively on the tree the VCs came from,
and the contract's postconditions are evaluated on (arguments, actual result)
with z3 as the evaluator.  Only a reproduced failure is reported without the
``no-failing-input-found`` suffix."""
import json
import os
import re
import subprocess

import z3

from . import values as vl
from . import solve
from .symex import V, SSet, SDict, SObj, SModel, SFunc, Exec, as_bool, fresh, Unsupported

VERIF = os.path.dirname(os.path.dirname(os.path.dirname(os.path.abspath(__file__))))
PY_PENMAN = '/venv/bin/python'


class NotDecodable(Exception):
    pass


def unescape(s):
    def rep(m):
        return chr(int(m.group(1) or m.group(2), 16))
    return re.sub(r'\\u\{([0-9a-fA-F]+)\}|\\u([0-9a-fA-F]{4})', rep, s)


def seq_items(t):
    """list of element terms of a concrete sequence value"""
    if z3.is_app(t):
        k = t.decl().kind()
        if k == z3.Z3_OP_SEQ_EMPTY:
            return []
        if k == z3.Z3_OP_SEQ_UNIT:
            return [t.arg(0)]
        if k == z3.Z3_OP_SEQ_CONCAT:
            out = []
            for c in t.children():
                out.extend(seq_items(c))
            return out
    raise NotDecodable('sequence value %s' % t.sexpr()[:80])


INV_CLASSES = {v: k for k, v in vl.CLASSES.items()}


def decode_val(t):
    """concrete Val term -> JSON-able value in the bounded tier's `ser` format"""
    if not z3.is_app(t):
        raise NotDecodable(str(t))
    n = t.decl().name()
    if n == 'VNone':
        return None
    if n == 'VBool':
        return z3.is_true(t.arg(0))
    if n == 'VInt':
        return t.arg(0).as_long()
    if n == 'VFloat':
        a = t.arg(0)
        if z3.is_rational_value(a):
            return {'$f': repr(a.numerator_as_long() / a.denominator_as_long())}
        raise NotDecodable('real value')
    if n == 'VStr':
        if not z3.is_string_value(t.arg(0)):
            raise NotDecodable('string value')
        return unescape(t.arg(0).as_string())
    if n == 'VTuple':
        return {'$t': [decode_val(x) for x in seq_items(t.arg(0))]}
    if n == 'VList':
        return [decode_val(x) for x in seq_items(t.arg(0))]
    if n == 'VObj':
        cls = INV_CLASSES.get(t.arg(0).as_long())
        fields = [decode_val(x) for x in seq_items(t.arg(1))]
        if cls == 'Push':
            return {'$push': fields[0]}
        if cls == 'Pop':
            return {'$pop': 1}
        if cls in ('Alignment', 'RoleAlignment'):
            idx = fields[0]
            if isinstance(idx, dict) and '$t' in idx:
                idx = idx['$t']
            if not isinstance(idx, list) or not all(isinstance(i, int) for i in idx):
                idx = [0]
            return {'$aln' if cls == 'Alignment' else '$raln': [idx, fields[1] if isinstance(fields[1], str) else None]}
        if cls == 'Token':
            return {'$token': fields}
        raise NotDecodable('object of class %s' % cls)
    raise NotDecodable(n)


def string_literals(terms):
    out = set()
    seen = set()

    def walk(e):
        if e.get_id() in seen:
            return
        seen.add(e.get_id())
        if z3.is_string_value(e):
            out.add(unescape(e.as_string()))
        for c in e.children():
            walk(c)
    for t in terms:
        walk(t)
    return out


def decode_model_table(m, sm, extra_strings):
    """role table of a symbolic model under z3 model *m*: sample m_has on every
    string the query mentions plus their -of variants"""
    cands = set(extra_strings)
    for s in list(cands):
        cands.add(s + '-of')
        cands.add(s + '-of-of')
        if s.endswith('-of'):
            cands.add(s[:-3])
    probe = z3.StringVal('\x01probe\x02')
    default = z3.is_true(m.eval(vl.m_has(sm.m, probe), model_completion=True))
    table = {}
    for s in sorted(cands):
        table[s] = z3.is_true(m.eval(vl.m_has(sm.m, z3.StringVal(s)), model_completion=True))
    norm = {}
    for s in sorted(cands):
        if z3.is_true(m.eval(vl.m_norm_has(sm.m, z3.StringVal(s)), model_completion=True)):
            v = m.eval(vl.m_norm(sm.m, z3.StringVal(s)), model_completion=True)
            if z3.is_string_value(v):
                norm[s] = unescape(v.as_string())
    noop = z3.is_true(m.eval(vl.m_noop(sm.m), model_completion=True))
    return {'$model': {'has': table, 'default': default, 'noop': noop, 'norm': norm}}


def decode_sv(m, sv, strings):
    if isinstance(sv, V):
        return decode_val(m.eval(sv.t, model_completion=True))
    if isinstance(sv, SModel):
        return decode_model_table(m, sv, strings)
    if isinstance(sv, SSet):
        # membership is sampled on the values the query mentions
        members = []
        for s in sorted(strings):
            if z3.is_true(m.eval(sv.mem(vl.vstr(s)), model_completion=True)):
                members.append(s)
        return {'$set': members}
    if isinstance(sv, SObj):
        if sv.cls == 'Graph':
            trip = decode_sv(m, sv.fields['triples'], strings)
            epi = sv.fields['epidata']
            ed = []
            for t in trip:
                tv = encode_val(t)
                if z3.is_true(m.eval(z3.Select(epi.dom, tv), model_completion=True)):
                    ed.append([t, decode_val(m.eval(z3.Select(epi.val, tv), model_completion=True))])
            return {'$graph': {'triples': trip, 'top': decode_sv(m, sv.fields['_top'], strings), 'epidata': ed}}
        if sv.cls == 'Tree':
            return {'$tree': {'node': decode_sv(m, sv.fields['node'], strings)}}
        if sv.cls == 'TokenIterator':
            return {'$tokens': {'rem': decode_sv(m, sv.fields['rem'], strings),
                                'last': decode_sv(m, sv.fields['_last'], strings)}}
    if isinstance(sv, SFunc) and sv.kind == 'keyfn':
        return {'$keyfn': 1}
    raise NotDecodable(type(sv).__name__)


def encode_val(x):
    """`ser`-format value -> concrete Val term"""
    if x is None:
        return vl.VNone
    if isinstance(x, bool):
        return vl.vbool(x)
    if isinstance(x, int):
        return vl.vint(x)
    if isinstance(x, str):
        return vl.vstr(x)
    if isinstance(x, list):
        return vl.vlist([encode_val(y) for y in x])
    if isinstance(x, dict):
        if '$t' in x:
            return vl.vtuple([encode_val(y) for y in x['$t']])
        if '$f' in x:
            f = float(x['$f'])
            return vl.VFloat(z3.RealVal(repr(f)))
        if '$push' in x:
            return vl.vobj('Push', [encode_val(x['$push'])])
        if '$pop' in x:
            return vl.vobj('Pop', [])
        if '$aln' in x or '$raln' in x:
            k = '$aln' if '$aln' in x else '$raln'
            idx, pre = x[k]
            return vl.vobj('Alignment' if k == '$aln' else 'RoleAlignment',
                           [vl.vtuple([vl.vint(i) for i in idx]), encode_val(pre)])
        if '$token' in x:
            return vl.vobj('Token', [encode_val(y) for y in x['$token']])
    raise NotDecodable('cannot encode %r' % (x,))


NATIVE = r'''
import json, sys, re, logging
logging.disable(logging.CRITICAL)
sys.path.insert(0, %(verif)r)
from vlib.bounded import base
spec = json.load(sys.stdin)

def build(x):
    if isinstance(x, dict) and '$model' in x:
        from penman.model import Model
        from penman.models.noop import NoOpModel
        t = x['$model']
        m = (NoOpModel if t['noop'] else Model)(normalizations=t['norm'])
        yes = [re.escape(k) for k, v in t['has'].items() if v]
        no = [re.escape(k) for k, v in t['has'].items() if not v]
        if t['default']:
            pat = '^(?!(?:%%s)$)(?s:.*)$' %% '|'.join(no) if no else '^(?s:.*)$'
        else:
            pat = '^(?:%%s)$' %% '|'.join(yes) if yes else '^(?!)$'
        m._role_re = re.compile(pat)
        for k, v in t['has'].items():
            assert m._has_role(k) == v, (k, v)
        return m
    if isinstance(x, dict) and '$graph' in x:
        from penman.graph import Graph
        g = x['$graph']
        return Graph([build(t) for t in g['triples']], top=build(g['top']),
                     epidata={build(k): build(v) for k, v in g['epidata']})
    if isinstance(x, dict) and '$tree' in x:
        from penman.tree import Tree
        return Tree(build(x['$tree']['node']))
    if isinstance(x, dict) and '$set' in x:
        return set(x['$set'])
    if isinstance(x, dict) and '$tokens' in x:
        from penman._lexer import Token, TokenIterator
        toks = [Token(*build(t)['$token']) if isinstance(t, dict) else t for t in []]
        rem = [Token(*[build(f) for f in t['$token']]) for t in x['$tokens']['rem']]
        it = TokenIterator(iter(rem))
        last = x['$tokens']['last']
        if last is not None:
            it._last = Token(*[build(f) for f in last['$token']])
        return it
    if isinstance(x, dict) and '$keyfn' in x:
        return lambda role: role
    if isinstance(x, list):
        return [build(y) for y in x]
    if isinstance(x, dict) and '$t' in x:
        return tuple(build(y) for y in x['$t'])
    return base.des(x)

def out(v):
    from penman.graph import Graph
    from penman.tree import Tree
    if isinstance(v, Graph):
        return {'$graph': {'triples': base.ser(v.triples), 'top': base.ser(v._top),
                           'epidata': [[base.ser(k), base.ser(e)] for k, e in v.epidata.items()]}}
    if isinstance(v, Tree):
        return {'$tree': {'node': base.ser(v.node)}}
    if isinstance(v, (set, frozenset)):
        return {'$set': sorted(map(repr, v))}
    if hasattr(v, '_fields') and type(v).__name__ == 'Token':
        return {'$token': [base.ser(f) for f in v]}
    return base.ser(v)

import importlib, copy
mod = importlib.import_module(spec['module'])
args = [build(a) for a in spec['args']]
parts = spec['qualname'].split('.')
cfn = None
if spec.get('contract_file'):
    from vlib.pyvc import dsl as _dsl
    _dsl.link_sidecars()
    cmod = importlib.import_module('contracts.' + spec['contract_file'][:-3])
    cfn = getattr(cmod, spec['contract_name'])
from vlib.pyvc import dsl
modifies = set(spec.get('modifies') or [])
pnames = spec.get('params') or []
snap = []
for nm, a in zip(pnames, args):
    try:
        snap.append(a if (callable(a) or hasattr(a, '_role_re')) else copy.deepcopy(a))
    except Exception:
        snap.append(a)

def universe(xs, acc):
    for x in xs:
        if isinstance(x, (str, int, float)) or x is None:
            acc.add(x)
        elif isinstance(x, (list, tuple, set)):
            universe(x, acc)
        elif hasattr(x, 'triples'):
            universe(x.triples, acc); acc.add(x._top)
    return acc

report = {}
try:
    if len(parts) >= 2 and parts[-1] == 'setter':
        setattr(args[0], parts[1], args[1]); res = None
    elif len(parts) == 2:
        target = getattr(type(args[0]), parts[1]) if hasattr(type(args[0]), parts[1]) and not isinstance(args[0], (str, int, tuple, list, dict, set)) else getattr(getattr(mod, parts[0]), parts[1])
        res = target.fget(args[0]) if isinstance(target, property) else target(*args)
    else:
        res = getattr(mod, parts[0])(*args)
    report = {'ok': True, 'result': out(res)}
except Exception as e:
    res = None
    report = {'ok': False, 'exc': type(e).__name__, 'msg': str(e)[:300],
              'lineno': getattr(e, 'lineno', None), 'offset': getattr(e, 'offset', None)}
def sig(x):
    if hasattr(x, 'triples'):
        return repr((x.triples, x._top, sorted(((k, [repr(e) for e in v]) for k, v in x.epidata.items()), key=repr), dict(x.metadata)))
    if hasattr(x, 'node'):
        return repr((x.node, dict(x.metadata)))
    return repr(x)
changed = []
for nm, a, s0 in zip(pnames, args, snap):
    if nm not in modifies and not callable(a) and not hasattr(a, '_role_re'):
        try:
            if sig(a) != sig(s0):
                changed.append(nm)
        except Exception:
            pass
report['arguments_changed'] = changed
if cfn is not None and report.get('ok'):
    # parameters denote their entry values unless the function may modify them in place
    cargs, olds = [], {}
    for nm, a, s0 in zip(pnames, args, snap):
        if nm in modifies or hasattr(a, 'triples') or hasattr(a, 'node'):
            cargs.append(a); olds[id(a)] = s0
        else:
            cargs.append(s0)
    dsl._state['universe'] = universe(list(snap) + [res], set())
    try:
        report['clauses'] = [[k, l, v] for k, l, v in dsl.evaluate(cfn, cargs, res, olds)]
    except Exception as e:
        report['clauses_error'] = type(e).__name__ + ': ' + str(e)
print(json.dumps(report, default=repr))
'''


def run_native(repo_root, module, qualname, args, contract=None):
    env = dict(os.environ, PYTHONPATH=repo_root + os.pathsep + VERIF, PYTHONDONTWRITEBYTECODE='1')
    script = NATIVE % {'verif': VERIF}
    payload = {'module': module, 'qualname': qualname, 'args': args}
    if contract is not None:
        payload.update({'contract_file': getattr(contract, 'file', None), 'contract_name': contract.name,
                        'modifies': list(contract.modifies), 'params': [p for p, _ in contract.params]})
    r = subprocess.run([PY_PENMAN, '-c', script], input=json.dumps(payload),
                       capture_output=True, text=True, env=env, timeout=60)
    if r.returncode != 0 or not r.stdout.strip():
        return {'ok': False, 'exc': 'ReplayCrash', 'msg': (r.stderr or '')[-500:]}
    return json.loads(r.stdout.strip().splitlines()[-1])


def violation_for(eng, key, ob, r, repo_root):
    """violation record for a refuted obligation (model extraction and decoding run in a forked
    child: z3 can crash the interpreter on some sequence / recursive-function models)"""
    fallback = {'name': ob.name, 'kind': 'obligation', 'function': key,
                'solver': {k: v for k, v in r.items() if k != 'raw'}, 'goal': ob.goal.sexpr()[:1500],
                'detail': 'obligation %s of %s is refuted (sat by %s in %.2fs); the counter-model could not be '
                          'extracted in-process' % (ob.name, key, r['by'], r['seconds']),
                'suffix': 'no-failing-input-found'}
    out = solve.forked(lambda: _violation_for(eng, key, ob, r, repo_root), timeout_s=120, default=None)
    if not out or '__error__' in out:
        if out:
            fallback['detail'] += ' (%s)' % out['__error__'][:200]
        return fallback
    return out


class PinnedModel:
    """values of the constants obtained from a command-line solver's (get-value ...)"""

    def __init__(self, pins, apps):
        self.pins = pins      # [(const, value term)]
        self.apps = apps      # {sexpr of a ground uninterpreted application: value term}

    def eval(self, t, model_completion=True):
        r = z3.substitute(t, *self.pins) if self.pins else t
        k = r.sexpr()
        if k in self.apps:
            return self.apps[k]
        try:
            r2 = vl.simp(r)
        except Exception:
            r2 = r
        if r2.sexpr() in self.apps:
            return self.apps[r2.sexpr()]
        if z3.is_bool(r2) and not (z3.is_true(r2) or z3.is_false(r2)):
            return z3.BoolVal(False)
        return r2

    def decls(self):
        return []

    def __str__(self):
        return '; '.join('%s = %s' % (c, v.sexpr()[:200]) for c, v in self.pins)


def cli_model(ob, info, strings):
    """ask /usr/bin/z3 then z3-new for the values of the entry constants (and of the role-table
    predicates on every string the query mentions)"""
    import tempfile, shutil
    consts = solve.free_consts(list(ob.pc) + [ob.goal])
    want = [c for c in consts if c.sort() in (vl.Val, vl.SeqVal, vl.String, vl.Int, vl.Bool)]
    models = [c for c in consts if c.sort() == vl.ModelS]
    apps = []
    for mc in models:
        apps.append(vl.m_noop(mc))
        for st in sorted(strings):
            for f in (vl.m_has, vl.m_norm_has):
                apps.append(f(mc, z3.StringVal(st)))
            apps.append(vl.m_norm(mc, z3.StringVal(st)))
    text = solve.smt2_of(ob.pc, ob.goal)
    items = [c.sexpr() for c in want] + [a.sexpr() for a in apps]
    if not items:
        return None
    text = text.replace('(check-sat)', '(check-sat)\n(get-value (%s))' % ' '.join(items))
    d = tempfile.mkdtemp(prefix='pyvc-')
    try:
        p = os.path.join(d, 'q.smt2')
        open(p, 'w').write(text)
        for cmd in (['/usr/bin/z3', '-smt2', '-T:20', p], ['z3-new', '-smt2', '-T:20', p]):
            try:
                r = subprocess.run(cmd, capture_output=True, text=True, timeout=30)
            except Exception:
                continue
            out = r.stdout.strip()
            if not out.startswith('sat'):
                continue
            body = out[3:].strip()
            if not body.startswith('('):
                continue
            pairs = solve.sexpr_split(body[1:-1])
            decls = {c.sexpr(): c for c in want}
            for mc in models:
                decls[mc.sexpr()] = mc
            pins, appvals = [], {}
            n_const = len(want)
            for j, pr in enumerate(pairs):
                parts = solve.sexpr_split(pr[1:-1])
                if len(parts) != 2 or 'seq.nth_' in parts[1] or 'lambda' in parts[1]:
                    continue
                try:
                    if j < n_const:
                        c = want[j]
                        a = z3.parse_smt2_string('(assert (= %s %s))' % (c.sexpr(), parts[1]),
                                                 sorts={'Val': vl.Val}, decls={c.sexpr(): c})
                        pins.append((c, a[0].arg(1)))
                    else:
                        app = apps[j - n_const]
                        if parts[1] in ('true', 'false'):
                            appvals[app.sexpr()] = z3.BoolVal(parts[1] == 'true')
                        elif parts[1].startswith('"'):
                            a = z3.parse_smt2_string('(declare-const __x String)(assert (= __x %s))' % parts[1])
                            appvals[app.sexpr()] = a[0].arg(1)
                except Exception:
                    continue
            if pins or appvals:
                return PinnedModel(pins, appvals)
        return None
    finally:
        shutil.rmtree(d, ignore_errors=True)


def regex_violation(eng, key, ob, r, repo_root):
    """a refuted lexer fact: the witness string is lexed by the real lexer and compared with the
    documented lexical grammar (the bounded tier's C08.lex check is the replay oracle)"""
    base = {'name': ob.name, 'kind': 'obligation', 'function': key, 'solver': {k: v for k, v in r.items() if k != 'raw'},
            'goal': ob.goal.sexpr()[:1500]}
    detail = 'lexer fact %s is refuted (sat by %s in %.2fs)' % (ob.name, r['by'], r['seconds'])
    s = z3.Solver()
    s.set('timeout', 20000)
    s.add(z3.Not(ob.goal))
    if s.check() != z3.sat:
        base.update({'detail': detail + '; no witness string extracted', 'suffix': 'no-failing-input-found'})
        return base
    m = s.model()
    w = None
    for d in m.decls():
        if z3.is_string_value(m[d]):
            w = unescape(m[d].as_string())
    if w is None and (ob.info or {}).get('witness'):
        w = ob.info['witness']
    base['model'] = 'x = %r' % (w,)
    if w is not None and ob.name.startswith('linebreak:'):
        return linebreak_violation(base, detail, w, repo_root)
    if w is not None and ob.name.startswith('model:'):
        rep = {'check': 'C13.model_table', 'args': {'$d': [['model', (ob.info or {}).get('model', 'amr')], ['role', w]]}}
        env = dict(os.environ, PYTHONPATH=repo_root + os.pathsep + VERIF, VERIF_REPO=repo_root, PYTHONDONTWRITEBYTECODE='1')
        pr = subprocess.run([PY_PENMAN, '-m', 'vlib.bounded.drv', '--replay', json.dumps(rep)],
                            cwd=VERIF, env=env, capture_output=True, text=True, timeout=120)
        try:
            out = json.loads(pr.stdout.strip().splitlines()[-1])
        except Exception:
            out = {}
        if out.get('detail') not in (None, 'SKIP') and out.get('finding') is None:
            base['replay'] = dict(rep, native=out)
            base.update({'detail': 'model fact %s is refuted; REPRODUCED natively: %s' % (ob.name, out['detail'][:200]), 'suffix': ''})
        else:
            base.update({'detail': 'model fact %s is refuted; the real model does not confirm witness %r' % (ob.name, w),
                         'suffix': 'no-failing-input-found'})
        return base
    if w is None:
        base.update({'detail': detail, 'suffix': 'no-failing-input-found'})
        return base
    # place the witness in contexts: alone, after a blank, inside a node
    tried = []
    for ctx in ('%s', ' %s', '(a / %s)', '(a :r %s )', '%s b'):
        for triple in (False, True):
            text = ctx % w
            env = dict(os.environ, PYTHONPATH=repo_root + os.pathsep + VERIF, VERIF_REPO=repo_root, PYTHONDONTWRITEBYTECODE='1')
            pr = subprocess.run([PY_PENMAN, '-m', 'vlib.bounded.drv', '--replay',
                                 json.dumps({'check': 'C08.lex', 'args': {'$d': [['s', text], ['triple', triple]]}})],
                                cwd=VERIF, env=env, capture_output=True, text=True, timeout=120)
            try:
                out = json.loads(pr.stdout.strip().splitlines()[-1])
            except Exception:
                continue
            tried.append(text)
            if out.get('detail') not in (None, 'SKIP') and out.get('finding') is None:
                base['replay'] = {'check': 'C08.lex', 'args': {'$d': [['s', text], ['triple', triple]]}, 'native': out}
                base.update({'kind': 'obligation', 'detail': detail + '; REPRODUCED natively: lexing %r: %s' % (text, out['detail'][:200]),
                             'suffix': ''})
                return base
    base.update({'detail': detail + '; witness %r lexes as documented in %d contexts' % (w, len(tried)),
                 'suffix': 'no-failing-input-found'})
    return base


def linebreak_violation(base, detail, w, repo_root):
    """a refuted line-terminator fact: the witness separator is placed where a line break matters and
    string input is compared with file input (the bounded tier's C09.newlines check is the oracle)"""
    for tmpl in ('# ::snt foo{0}bar\n(a / b)', '# ::id 1{0}(a / b){0}{0}(c / d){0}', '(a / b ; c{0} :r d)',
                 '(a / b{0} :r c)', '# ::snt x{0}# ::id 2\n(a / b)'):
        text = tmpl.format(w)
        env = dict(os.environ, PYTHONPATH=repo_root + os.pathsep + VERIF, VERIF_REPO=repo_root, PYTHONDONTWRITEBYTECODE='1')
        rep = {'check': 'C09.newlines', 'args': {'$d': [['text', text]]}}
        pr = subprocess.run([PY_PENMAN, '-m', 'vlib.bounded.drv', '--replay', json.dumps(rep)],
                            cwd=VERIF, env=env, capture_output=True, text=True, timeout=120)
        try:
            out = json.loads(pr.stdout.strip().splitlines()[-1])
        except Exception:
            continue
        if out.get('detail') not in (None, 'SKIP') and out.get('finding') is None:
            base['replay'] = dict(rep, native=out)
            base.update({'detail': detail + '; REPRODUCED natively on %r: %s' % (text, out['detail'][:200]), 'suffix': ''})
            return base
    # line numbers: the documented lexical grammar (C08.lex) counts CRLF as one line break
    for text in ('a%sb' % w, '(a / b%s :r c)' % w, '# x%s(a / b)' % w):
        env = dict(os.environ, PYTHONPATH=repo_root + os.pathsep + VERIF, VERIF_REPO=repo_root, PYTHONDONTWRITEBYTECODE='1')
        rep = {'check': 'C08.lex', 'args': {'$d': [['s', text], ['triple', False]]}}
        pr = subprocess.run([PY_PENMAN, '-m', 'vlib.bounded.drv', '--replay', json.dumps(rep)],
                            cwd=VERIF, env=env, capture_output=True, text=True, timeout=120)
        try:
            out = json.loads(pr.stdout.strip().splitlines()[-1])
        except Exception:
            continue
        if out.get('detail') not in (None, 'SKIP') and out.get('finding') is None:
            base['replay'] = dict(rep, native=out)
            base.update({'detail': detail + '; REPRODUCED natively on %r: %s' % (text, out['detail'][:200]), 'suffix': ''})
            return base
    base.update({'detail': detail + '; separator %r: string and file input agree on the probes' % (w,),
                 'suffix': 'no-failing-input-found'})
    return base


def _violation_for(eng, key, ob, r, repo_root):
    if ob.kind == 'regex':
        return regex_violation(eng, key, ob, r, repo_root)
    base = {'name': ob.name, 'kind': 'obligation', 'function': key, 'solver': {k: v for k, v in r.items() if k != 'raw'},
            'goal': ob.goal.sexpr()[:1500]}
    detail = 'obligation %s of %s is refuted (sat by %s in %.2fs)' % (ob.name, key, r['by'], r['seconds'])
    info = ob.info or {}
    strings = string_literals(list(ob.pc) + [ob.goal])
    try:
        m = solve.model_for(ob, 15000)
    except Exception as e:
        m = None
    if m is None:
        try:
            m = cli_model(ob, info, strings)
        except Exception as e:
            m = None
    if m is None:
        base.update({'detail': detail + '; no counter-model could be extracted', 'suffix': 'no-failing-input-found'})
        return base
    base['model'] = str(m)[:3000]
    if key.startswith('lemma:') or 'params' not in info:
        base.update({'detail': detail + ' (a lemma over contracts: there is no single function call to replay)',
                     'suffix': 'no-failing-input-found'})
        return base
    try:
        for d in m.decls():
            try:
                v = m[d]
                if z3.is_string_value(v):
                    strings.add(unescape(v.as_string()))
            except Exception:
                pass
        args = [decode_sv(m, sv, strings) for _, sv in info['params']]
    except NotDecodable as e:
        base.update({'detail': detail + '; counter-model not decodable (%s)' % e, 'suffix': 'no-failing-input-found'})
        return base
    module, qualname = key.split(':')
    nat = run_native(repo_root, module, qualname, args, info.get('contract'))
    base['replay'] = {'module': module, 'qualname': qualname, 'args': args, 'native': nat,
                      'contract': [getattr(info.get('contract'), 'file', None), getattr(info.get('contract'), 'name', None)]}
    reproduced, why = judge(eng, key, info, m, nat, ob)
    base['replay']['judgement'] = why
    if reproduced:
        base.update({'detail': detail + '; REPRODUCED natively: ' + why, 'suffix': ''})
    else:
        base.update({'detail': detail + '; native replay of the counter-model did not reproduce: ' + why,
                     'suffix': 'no-failing-input-found'})
    return base


def judge(eng, key, info, m, nat, ob):
    """does the real function, run on the decoded arguments, break its contract?  The contract is
    evaluated natively (vlib/pyvc/dsl.py gives the sidecar vocabulary its Python meaning)."""
    c = info['contract']
    if not nat.get('ok'):
        exc = nat.get('exc')
        if exc == 'ReplayCrash':
            return False, 'replay harness failed: %s' % nat.get('msg', '')[:200]
        from .symex import exc_matches
        allowed = [(e, w) for e, w in c.raises if exc_matches(exc, e)]
        if not allowed:
            return True, 'raised %s (%s), which the contract does not allow' % (exc, nat.get('msg', '')[:100])
        return False, 'raised %s, allowed by the contract (its `when` clause is not re-evaluated natively)' % exc
    if ob.kind == 'frame':
        if nat.get('arguments_changed'):
            return True, 'the call changed its argument(s) %s, which the contract does not list under modifies' % nat['arguments_changed']
        return False, 'the arguments are unchanged after the call on the decoded input'
    clauses = nat.get('clauses')
    if clauses is None:
        return False, 'the contract could not be evaluated natively (%s)' % nat.get('clauses_error', 'no clauses')
    if any(k == 'requires' and v is False for k, l, v in clauses):
        return False, 'decoded arguments do not satisfy the precondition natively (the counter-model relies on values the decoder cannot represent)'
    failed = [l or '#%d' % i for i, (k, l, v) in enumerate(clauses) if k == 'ensures' and v is False and l != 'define']
    errs = [v for k, l, v in clauses if k == 'error']
    if failed:
        return True, 'actual result %s violates ensures %s' % (json.dumps(nat['result'])[:200], failed)
    if errs:
        return False, 'contract evaluation stopped: %s' % errs[0][:200]
    return False, ('actual result %s satisfies every postcondition natively (the counter-model is a state the real '
                   'code does not reach from these arguments, e.g. inside a loop cut by its invariant)'
                   % json.dumps(nat['result'])[:200])


def ast_src(e):
    import ast
    return ast.unparse(e)[:80]


def encode_result(r, c):
    ty = c.ret or 'val'
    if isinstance(r, dict) and '$set' in r:
        raise NotDecodable('set result')
    if isinstance(r, dict) and '$graph' in r:
        raise NotDecodable('graph result')
    return V(encode_val(r))


def replay_file(prop, payload, repo_root):
    rp = payload.get('replay')
    print(payload.get('detail'))
    if not rp:
        print('no decoded input in this replay file; solver model:')
        print(payload.get('model', '')[:2000])
        return 1
    nat = run_native(repo_root, rp['module'], rp['qualname'], rp['args'])
    print(json.dumps({'args': rp['args'], 'native_now': nat, 'native_then': rp['native'],
                      'judgement_then': rp.get('judgement')}, indent=1)[:4000])
    return 1
