"""Modular calls (callee contract only) and the per-function verification driver."""
import ast, os

import z3

from . import values as vl
from .values import Val, VNone, VInt, VStr, is_none
from .symex import (Exec, Unsupported, Infeasible, PyRaise, ReturnSig, BreakSig, ContinueSig, PathEnd,
                    V, SSet, SDict, SObj, SModel, SFunc, SGen, SOpaque, as_val, as_bool, mk_bool, fresh,
                    exc_matches, Obligation)
from .loops import eval_spec, eval_spec_val, havoc

MAX_PATHS = 1500


def snapshot(v):
    """entry-state copy of a (possibly nested) mutable record"""
    if isinstance(v, SObj):
        return SObj(v.cls, {k: snapshot(x) for k, x in v.fields.items()})
    return v


def adopt(obj, new):
    """give *obj* (kept by identity) the field values of *new*, recursively for nested records"""
    for k, x in new.fields.items():
        if isinstance(x, SObj) and isinstance(obj.fields.get(k), SObj):
            adopt(obj.fields[k], x)
        else:
            obj.fields[k] = x


def find_contract(ex, module, qualname):
    key = '%s:%s' % (module, qualname)
    view = ex.contract.options.get('view') if ex.contract is not None else None
    if view and (key + '@' + view) in ex.eng.sidecar.contracts:
        # the caller reasons about its callees through another view of them (e.g. as opaque stages)
        key = key + '@' + view
    c = ex.eng.sidecar.contracts.get(key)
    if c is None:
        raise Unsupported('call to %s, which has no contract' % key)
    return key, c


def bind_args(ex, c, fdef, args, kw, self_obj, node, partial=False):
    """callee parameter name -> actual SV, following the real signature"""
    names = [a.arg for a in fdef.args.args]
    defaults = fdef.args.defaults
    dmap = {}
    for nm, d in zip(names[len(names) - len(defaults):], defaults):
        dmap[nm] = d
    bound = {}
    actual = list(args)
    if self_obj is not None:
        actual = [self_obj] + actual
    if fdef.args.vararg is not None:
        nfixed = len(names)
        bound[fdef.args.vararg.arg] = V(vl.vtuple([as_val(a) for a in actual[nfixed:]]))
        actual = actual[:nfixed]
    if len(actual) > len(names):
        raise Unsupported('too many arguments for %s' % fdef.name)
    for nm, a in zip(names, actual):
        bound[nm] = a
    for k, v in kw.items():
        if k not in names:
            raise Unsupported('unexpected keyword %s for %s' % (k, fdef.name))
        bound[k] = v
    for nm in names:
        if nm not in bound:
            if nm not in dmap:
                raise Unsupported('missing argument %s for %s' % (nm, fdef.name))
            if partial:
                # may also come through **kwargs: which of the two is not modelled
                bound[nm] = V(fresh('maybe_' + nm, Val))
                continue
            d = dmap[nm]
            if isinstance(d, ast.Constant):
                bound[nm] = ex.ev_Constant(d)
            elif isinstance(d, ast.UnaryOp) and isinstance(d.operand, ast.Constant):
                bound[nm] = V(VInt(z3.IntVal(-d.operand.value)))
            else:
                raise Unsupported('default value of %s' % nm)
    return bound


def result_value(ex, c, key):
    ty = c.ret or 'val'
    if ty == 'none':
        return V(VNone)
    return ex.eng.make_param('ret_' + key.split(':')[-1].replace('.', '_'), ty, ex.assume)


def call_contract(ex, module, qualname, argskw, node, self_obj=None):
    args, kw = argskw
    key, c = find_contract(ex, module, qualname)
    if qualname.startswith('Model.') and isinstance(self_obj, SModel) and \
            ('penman.models.noop:NoOpModel.' + qualname.split('.', 1)[1]) in ex.eng.sidecar.contracts:
        # closed world {Model, NoOpModel}: dynamic dispatch on the model kind (T9)
        if ex.spec_mode:
            raise Unsupported('overridden method in a specification')
        if ex.branch(vl.m_noop(self_obj.m)):
            key = 'penman.models.noop:NoOpModel.' + qualname.split('.', 1)[1]
            c = ex.eng.sidecar.contracts[key]
            module, qualname = key.split(':')
    ex.eng.contracts_called.add(key)
    if c.options.get('bounded') or c.options.get('axiom'):
        # the callee's contract is used without having been proved in this framework: recorded as an
        # assumption of the caller's proof (bounded: executed natively by the sweep; axiom: boundary)
        ex.eng.assumed_contracts.add(key)
    mod = ex.eng.repo.module(module)
    fdef = mod.func(qualname)
    kw = dict(kw)
    splat = kw.pop('**', None)
    bound = bind_args(ex, c, fdef, args, kw, self_obj, node, partial=splat is not None)
    for pn, pty in c.params:
        if pty == 'Model' and isinstance(bound.get(pn), V) and bound[pn].t.eq(VNone):
            # no model given: the callee falls back to its own default, which is not the caller's
            bound[pn] = SModel(z3.Const('callee_default_model', vl.ModelS))
    cnames = [p for p, _ in c.params]
    if '__kwargs__' in cnames:
        bound['__kwargs__'] = splat if splat is not None else V(VNone)
        cnames = [p for p in cnames if p != '__kwargs__']
    elif splat is not None:
        raise Unsupported('**kwargs passed to %s, whose contract has no __kwargs__ parameter' % key)
    if cnames != [a.arg for a in fdef.args.args] + ([fdef.args.vararg.arg] if fdef.args.vararg else []):
        raise Unsupported('signature of %s differs from its contract' % key)
    sub = Exec(ex.eng, mod, None, spec_mode=True)
    sub.fname = ex.fname
    sub.env = dict(bound)
    sub.old_env = dict(bound)
    if ex.spec_mode:
        # inside a specification expression or a comprehension body: the callee must have a
        # functional contract `ensures(result == E)`; E is used as the value (total semantics,
        # preconditions are not checked here -- see the comprehension note in DESIGN 2.1)
        for label, en in c.ensures:
            if isinstance(en, ast.Compare) and len(en.ops) == 1 and isinstance(en.ops[0], ast.Eq) \
                    and isinstance(en.left, ast.Name) and en.left.id == 'result' and not c.modifies:
                return sub.ev(en.comparators[0])
        raise Unsupported('call of %s in a specification context needs a contract of the form result == E' % key)
    # precondition
    for j, r in enumerate(c.requires):
        ex.oblige('pre-call', as_bool(sub.ev(r)), label='pre-call[%s].%d@%s' % (qualname, j, getattr(node, 'lineno', '?')))
    # exceptions the callee may raise
    if not ex.spec_mode:
        for exc, when in c.raises:
            if when is not None:
                cond = as_bool(sub.ev(when))
            else:
                cond = fresh('raises_' + exc, vl.Bool)
            if ex.exc_expected(exc):
                if ex.branch(cond):
                    raise PyRaise(exc, node=node)
            else:
                # the caller's contract does not allow it: must be impossible here
                ex.oblige('safe', z3.Not(cond), label='safe[%s]:call %s@%s' % (exc, qualname, getattr(node, 'lineno', '?')))
                ex.assume(z3.Not(cond))
    # state changes
    old_bound = dict(bound)
    for pname in c.modifies:
        actual = bound[pname]
        if isinstance(actual, SObj):
            old_bound[pname] = snapshot(actual)
            hv = havoc(ex, actual, pname)
            adopt(actual, hv)
        else:
            raise Unsupported('callee %s modifies a non-object argument %s' % (key, pname))
        from .mutate import note_param_mutation
        if not (qualname.endswith('.__init__') and pname == 'self'):
            note_param_mutation(ex, actual, node)
    # a functional postcondition `result == E` gives the result directly (no fresh constant)
    res = None
    direct = None
    if not c.modifies and (c.ret or 'val') in ('val', 'str', 'int', 'bool', 'list', 'tuple', 'atom', 'optstr'):
        for label, en in c.ensures:
            if label != 'define' and isinstance(en, ast.Compare) and len(en.ops) == 1 and isinstance(en.ops[0], ast.Eq) \
                    and isinstance(en.left, ast.Name) and en.left.id == 'result':
                sub.env = dict(bound)
                try:
                    cand = sub.ev(en.comparators[0])
                except Unsupported:
                    cand = None
                if isinstance(cand, V):
                    t = vl.simp(cand.t)
                    if not ex.spec_mode:
                        t = split_value(ex, t, 3)
                    res, direct = V(t), en
                    break
    if res is None:
        res = result_value(ex, c, key)
    sub.env = dict(bound)
    sub.env['result'] = res
    sub.old_env = old_bound
    for label, en in c.ensures:
        if en is direct:
            continue
        post = vl.simp(as_bool(sub.ev(en)))
        if not ex.spec_mode:
            post = split_ite(ex, post, 3)
        ex.assume(post)
    return res


def split_value(ex, t, depth):
    """a callee result of the form ite(c, a, b) (possibly under one constructor): fork on c so
    that every path works with a definite value (keeps string VCs free of merged alternatives)"""
    if depth == 0:
        return t
    inner, wrap = t, (lambda x: x)
    if z3.is_app(t) and t.num_args() == 1 and t.decl().kind() == z3.Z3_OP_DT_CONSTRUCTOR:
        inner, wrap = t.arg(0), (lambda x, d=t.decl(): d(x))
    if z3.is_app(inner) and inner.decl().kind() == z3.Z3_OP_ITE:
        c, a, b = inner.arg(0), inner.arg(1), inner.arg(2)
        if ex.branch(c):
            return split_value(ex, vl.simp(wrap(a)), depth - 1)
        return split_value(ex, vl.simp(wrap(b)), depth - 1)
    return t


def split_ite(ex, post, depth):
    """`result == ite(c, a, b)` in an assumed postcondition: fork on c so that each
    path gets a definite value (keeps string VCs free of merged alternatives)"""
    if depth == 0 or not (z3.is_eq(post) and post.num_args() == 2):
        return post
    for i in (0, 1):
        t = post.arg(i)
        other = post.arg(1 - i)
        # look through one constructor application: VStr(ite(...))
        inner, wrap = t, (lambda x: x)
        if z3.is_app(t) and t.num_args() == 1 and t.decl().kind() == z3.Z3_OP_DT_CONSTRUCTOR:
            inner, wrap = t.arg(0), (lambda x, d=t.decl(): d(x))
        if z3.is_app(inner) and inner.decl().kind() == z3.Z3_OP_ITE:
            c, a, b = inner.arg(0), inner.arg(1), inner.arg(2)
            if ex.branch(c):
                return split_ite(ex, vl.simp(other == wrap(a)), depth - 1)
            return split_ite(ex, vl.simp(other == wrap(b)), depth - 1)
    return post


# ---------------------------------------------------------------------------

def index_loops(fdef):
    ords = {}
    k = 0
    for n in ast.walk(fdef):
        pass
    # source order = order of a pre-order traversal restricted to statements
    def visit(stmts):
        nonlocal k
        for st in stmts:
            if isinstance(st, (ast.For, ast.While)):
                ords[id(st)] = k
                k += 1
            for fld in ('body', 'orelse', 'finalbody'):
                if hasattr(st, fld) and isinstance(getattr(st, fld), list):
                    visit(getattr(st, fld))
            if isinstance(st, ast.Try):
                for h in st.handlers:
                    visit(h.body)
    visit(fdef.body)
    return ords


class FunctionResult:
    def __init__(self, key):
        self.key = key
        self.obligations = []
        self.paths = 0
        self.infeasible = 0
        self.status = 'ok'          # 'ok' | 'unsupported'
        self.reason = ''
        self.source_hash = ''
        self.returns = 0


def verify_function(eng, key, c, fdef=None, module=None):
    """all proof obligations of one function (or lemma) against its contract"""
    res = FunctionResult(key)
    try:
        if c.kind == 'lemma':
            modname = c.options.get('module')
            mod = eng.repo.module(modname) if modname else None
            fdef = c.fn
            body = c.body
        else:
            modname, qualname = key.split(':')
            qualname = qualname.split('@')[0]        # (penman.mod:func@view is another contract of func)
            mod = eng.repo.module(modname)
            fdef = mod.func(qualname)
            res.source_hash = mod.source_hash(qualname)
            body = [s for s in fdef.body
                    if not (isinstance(s, ast.Expr) and isinstance(s.value, ast.Constant))]
            sig = [a.arg for a in fdef.args.args] + ([fdef.args.vararg.arg] if fdef.args.vararg else [])
            if sig != [p for p, _ in c.params if p != '__kwargs__']:
                raise Unsupported('signature %r differs from the contract %r' % (sig, [p for p, _ in c.params]))
            if fdef.args.kwonlyargs or fdef.args.kwarg:
                raise Unsupported('keyword-only / ** parameters')
    except Unsupported as u:
        if os.environ.get('PYVC_TRACE'):
            import traceback; traceback.print_exc()
        res.status, res.reason = 'unsupported', str(u)
        return res
    except Exception as e:
        res.status, res.reason = 'unsupported', '%s: %s' % (type(e).__name__, e)
        return res
    ords = index_loops(fdef) if c.kind != 'lemma' else index_loops(ast.Module(body=body, type_ignores=[]))
    trace = []
    seen = set()
    while True:
        ex = Exec(eng, mod, c, trace=list(trace))
        ex.fname = key.split(':')[-1] if c.kind != 'lemma' else 'lemma.' + c.name
        ex.loop_ordinals = ords
        ex.real_fdef = fdef if c.kind != 'lemma' else None
        res.paths += 1
        if res.paths > MAX_PATHS:
            res.status, res.reason = 'unsupported', 'more than %d paths' % MAX_PATHS
            return res
        try:
            run_path(ex, c, body, res)
        except Infeasible:
            res.infeasible += 1
        except Unsupported as u:
            if os.environ.get('PYVC_TRACE'):
                import traceback; traceback.print_exc()
            res.status, res.reason = 'unsupported', str(u)
            return res
        except RecursionError:
            res.status, res.reason = 'unsupported', 'recursion limit in the generator'
            return res
        for ob in ex.obligations:
            if c.options.get('frames') and ob.kind != 'frame':
                # frame-only contract: loops are cut by the trivial invariant, so only the
                # ownership obligations (which hold in every state or not at all) are meaningful
                continue
            # (terms are hash-consed: equal ids = equal terms; the obligations keep them alive)
            sig = (ob.name, ob.goal.get_id(), tuple(p.get_id() for p in ob.pc))
            h = hash(sig)
            if h in seen:
                continue
            seen.add(h)
            res.obligations.append(ob)
        # next trace: flip the last True decision
        t = ex.trace[:ex.pos] if ex.pos <= len(ex.trace) else ex.trace
        t = list(ex.trace[:max(ex.pos, 0)])
        while t and t[-1] is False:
            t.pop()
        if not t:
            break
        t[-1] = False
        trace = t
    # give path-indexed unique names
    counts = {}
    for ob in res.obligations:
        k = counts.get(ob.name, 0)
        counts[ob.name] = k + 1
        ob.name = '%s#%d' % (ob.name, k)
    return res


def run_path(ex, c, body, res):
    # parameters
    for p, ty in c.params:
        ex.env[p] = ex.eng.make_param(p, ty, ex.assume, ex)
        ex.roots[p] = {p}
    ex.param_names = [p for p, _ in c.params]
    ex.old_env = {}
    ex.param_objs = {}
    for p, v in ex.env.items():
        ex.old_env[p] = snapshot(v)
        if isinstance(v, SObj):
            ex.param_objs[p] = v
    ex.entry_params = [(p, ex.old_env[p]) for p in ex.param_names]
    for r in c.requires:
        ex.assume(eval_spec(ex, r))
    if not ex.feasible():
        raise Infeasible()
    try:
        ex.run_block(body)
        result = V(VNone)
    except ReturnSig as r:
        result = r.value
    except PathEnd:
        return
    except (BreakSig, ContinueSig):
        raise Unsupported('break/continue outside a loop')
    except PyRaise as r:
        if not c.options.get('frames'):
            check_raise(ex, c, r)
        res.returns += 1
        return
    res.returns += 1
    # normal return: postconditions
    ex.ghost = {}
    saved = dict(ex.env)
    post_env = dict(ex.env)
    # in a postcondition a parameter name denotes its value at entry (rebinding a
    # parameter is invisible to the caller); objects the function may modify in
    # place (modifies) denote their final state, old(x) their entry state
    for p in ex.param_names:
        if p in c.modifies or isinstance(ex.old_env.get(p), SObj):
            post_env[p] = ex.env.get(p, ex.old_env[p]) if not isinstance(ex.old_env.get(p), SObj) else ex.env_obj(p)
        else:
            post_env[p] = ex.old_env[p]
    ex.env = post_env
    ex.env['result'] = coerce_result(ex, c, result)
    for j, (label, en) in enumerate(c.ensures):
        ex.oblige('post', eval_spec(ex, en), label='post.%s' % (label or j))
    ex.env = saved


def coerce_result(ex, c, result):
    return result


def check_raise(ex, c, r):
    exc = r.exc
    clauses = [(e, w) for e, w in c.raises if exc_matches(exc, e)]
    if not clauses:
        ex.oblige('raises', z3.BoolVal(False), label='raises[%s]:unexpected@%s' % (exc, getattr(r.node, 'lineno', '?')))
        return
    conds = []
    saved_env = ex.env
    ex.env = dict(ex.old_env)
    val = (r.payload or {}).get('value') if isinstance(r.payload, dict) else None
    for j, (e, w) in enumerate(c.raises):
        if not exc_matches(exc, e):
            continue
        cnd = z3.BoolVal(True) if w is None else eval_spec(ex, w)
        at = c.raises_at[j] if j < len(c.raises_at) else {}
        if at and val is not None:
            # the reported position: line and column carried by the exception value
            for fld, idx in (('lineno', 1), ('offset', 2)):
                if fld in at:
                    want = as_val(eval_spec_val(ex, at[fld]))
                    cnd = z3.And(cnd, vl.get_fields(val.t)[idx] == want)
        conds.append(cnd)
    ex.env = saved_env
    ex.oblige('raises', z3.Or(*conds), label='raises[%s]@%s' % (exc, getattr(r.node, 'lineno', '?')))
