"""Loops are cut by the sidecar's inductive invariants (keyed by loop ordinal).

On the incoming path: `inv-init`; then every variable the body may modify is
havocked, the invariant assumed, and the path forks: the body branch ends with
`inv-step` (plus a shape check of the havocked variables and `decreases` when
claimed) and stops; the exit branch continues after the loop."""
import ast

import z3

from . import values as vl
from .values import (Val, SeqVal, SetVal, VNone, VBool, VInt, VStr, VTuple, VList, is_int, is_str,
                     is_list, is_tuple, is_bool, is_none, get_i, get_items, get_elems)
from .symex import (Unsupported, PyRaise, ReturnSig, BreakSig, ContinueSig, PathEnd, V, SSet, SDict,
                    SObj, SModel, SFunc, SGen, as_val, as_bool, mk_bool, static_kind, fresh)


def modified_names(body):
    """names (roots) the loop body may rebind or mutate"""
    out = set()
    mut = {'append', 'extend', 'insert', 'pop', 'sort', 'clear', 'reverse', 'add', 'update',
           'remove', 'discard', 'setdefault', 'next', 'expect', 'accept'}

    def root(e):
        while isinstance(e, (ast.Subscript, ast.Attribute)):
            e = e.value
        return e.id if isinstance(e, ast.Name) else None

    def targets(t):
        if isinstance(t, ast.Name):
            out.add(t.id)
        elif isinstance(t, (ast.Tuple, ast.List)):
            for x in t.elts:
                targets(x)
        elif isinstance(t, (ast.Subscript, ast.Attribute)):
            r = root(t)
            if r:
                out.add(r)
    for st in body:
        for n in ast.walk(st):
            if isinstance(n, ast.Assign):
                for t in n.targets:
                    targets(t)
            elif isinstance(n, (ast.AugAssign, ast.AnnAssign)):
                targets(n.target)
            elif isinstance(n, (ast.For, ast.comprehension)):
                if isinstance(n, ast.For):
                    targets(n.target)
            elif isinstance(n, ast.Delete):
                for t in n.targets:
                    targets(t)
            elif isinstance(n, ast.Call) and isinstance(n.func, ast.Attribute) and n.func.attr in mut:
                r = root(n.func.value)
                if r:
                    out.add(r)
            elif isinstance(n, ast.Call):
                # callee that modifies an argument (modular: by its contract) -- conservatively
                # every plain-name argument of a call to a local/penman function may be modified
                pass
    return out


def havoc(ex, sv, name):
    if isinstance(sv, V):
        k = static_kind(sv.t)
        if k == 'VList':
            return V(VList(fresh(name, SeqVal)))
        if k == 'VTuple':
            return V(VTuple(fresh(name, SeqVal)))
        if k == 'VStr':
            return V(VStr(fresh(name, vl.String)))
        if k == 'VInt':
            return V(VInt(fresh(name, vl.Int)))
        if k == 'VBool':
            return V(VBool(fresh(name, vl.Bool)))
        return V(fresh(name, Val))
    if isinstance(sv, SSet):
        z = fresh(name, vl.SetS)
        return SSet(pred=lambda k, z=z: vl.set_mem(z, k), sid=z)
    if isinstance(sv, SDict):
        valsort = vl.MapSet if sv.vkind == 'set' else vl.MapVal
        return SDict(fresh(name + '_dom', SetVal), fresh(name + '_val', valsort),
                     fresh(name + '_keys', SeqVal) if sv.keys is not None else None, sv.vkind, sv.default)
    if isinstance(sv, SObj):
        return SObj(sv.cls, {k: havoc(ex, v, name + '_' + k) for k, v in sv.fields.items()})
    return sv


def shape_preserved(ex, before, after, name, st):
    """the havocked representation must cover what the body can produce"""
    if isinstance(before, V) and isinstance(after, V):
        k = static_kind(before.t)
        test = {'VList': is_list, 'VTuple': is_tuple, 'VStr': is_str, 'VInt': is_int, 'VBool': is_bool}.get(k)
        if test is not None:
            ex.oblige('inv-shape', test(after.t), label='loop%d.shape[%s]' % (ex.cur_loop, name))
        return
    if type(before) is not type(after):
        raise Unsupported('loop variable %s changes kind' % name)


class Iteration:
    """n items; elem(i) -> SV bound to the loop target"""
    def __init__(self, n, elem, roots=(), seq=None):
        self.n, self.elem, self.seq = n, elem, seq


def iteration_of(ex, it_e, st):
    from .builtins import seq_term
    # enumerate / zip / range / dict views
    if isinstance(it_e, ast.Call) and isinstance(it_e.func, ast.Name):
        fn = it_e.func.id
        if fn == 'enumerate':
            inner = iteration_of(ex, it_e.args[0], st)
            start = ex.evv(it_e.args[1]) if len(it_e.args) > 1 else VInt(z3.IntVal(0))
            s0 = get_i(start)
            return Iteration(inner.n, lambda i: V(vl.vtuple([VInt(i + s0), as_val(inner.elem(i))])))
        if fn == 'zip':
            a = iteration_of(ex, it_e.args[0], st)
            b = iteration_of(ex, it_e.args[1], st)
            n = z3.If(a.n <= b.n, a.n, b.n)
            return Iteration(n, lambda i: V(vl.vtuple([as_val(a.elem(i)), as_val(b.elem(i))])))
        if fn == 'range':
            args = [get_i(ex.evv(a)) for a in it_e.args]
            if len(args) == 1:
                n = z3.If(args[0] > 0, args[0], 0)
                return Iteration(n, lambda i: V(VInt(i)))
            if len(args) == 2:
                n = z3.If(args[1] > args[0], args[1] - args[0], 0)
                return Iteration(n, lambda i: V(VInt(args[0] + i)))
            raise Unsupported('range with step')
        if fn == 'reversed':
            inner = iteration_of(ex, it_e.args[0], st)
            return Iteration(inner.n, lambda i: inner.elem(inner.n - 1 - i))
    v = ex.ev(it_e)
    if isinstance(v, SFunc) and v.kind == 'dictview':
        d = v.d
        if d.keys is None:
            raise Unsupported('iteration over an unordered dict')
        n = z3.Length(d.keys)
        if v.view == 'keys':
            return Iteration(n, lambda i: V(d.keys[i]))
        if v.view == 'values':
            return Iteration(n, lambda i: ex.dict_value(d, d.keys[i]))
        return Iteration(n, lambda i: V(vl.vtuple([d.keys[i], as_val(ex.dict_value(d, d.keys[i]))])))
    if isinstance(v, V) and (static_kind(v.t) == 'VStr' or ex.known_kind(v.t) == 'VStr'):
        # a string is visited character by character (each a one-character string)
        sstr = vl.simp(vl.get_s(v.t))
        return Iteration(z3.Length(sstr), lambda i: V(vl.VStr(z3.SubString(sstr, i, 1))))
    if isinstance(v, SSet):
        # a set is visited in *some* order: an arbitrary sequence with exactly the set's elements, each once.
        # What is proved holds for every such order (the invariants name it _order<k>).
        order = fresh('order', SeqVal)
        x = fresh('x', vl.Val)
        ex.assume(z3.ForAll([x], z3.Contains(order, z3.Unit(x)) == v.mem(x)))
        a, b = fresh('a', vl.Int), fresh('b', vl.Int)
        ex.assume(z3.ForAll([a, b], z3.Implies(z3.And(0 <= a, a < b, b < z3.Length(order)), order[a] != order[b])))
        it = Iteration(z3.Length(order), lambda i: V(order[i]), seq=order)
        it.order_of_set = order
        return it
    seq = seq_term(ex, v, st, 'iterable')
    return Iteration(z3.Length(seq), lambda i: V(seq[i]), seq=seq)


def loop_setup(ex, st, body_mods):
    ord_ = ex.loop_ordinals.get(id(st))
    if ord_ is None:
        raise Unsupported('loop not indexed')
    c = ex.contract
    invs = c.invariants.get(ord_) if c is not None else None
    if invs is None:
        if c is not None and c.options.get('frames'):
            return ord_, []      # frame-only contract: the trivial invariant (every state), see calls.py
        raise Unsupported('loop %d of %s has no invariant' % (ord_, ex.fname))
    return ord_, invs


def eval_spec(ex, expr):
    sm = ex.spec_mode
    ex.spec_mode = True
    try:
        return as_bool(ex.ev(expr))
    finally:
        ex.spec_mode = sm


def eval_spec_val(ex, expr):
    sm = ex.spec_mode
    ex.spec_mode = True
    try:
        return ex.ev(expr)
    finally:
        ex.spec_mode = sm


def run_for(ex, st):
    if st.orelse:
        raise Unsupported('for/else')
    mods = modified_names(st.body)
    ord_, invs = loop_setup(ex, st, mods)
    it = iteration_of(ex, st.iter, st)
    n = it.n
    if getattr(it, 'order_of_set', None) is not None:
        ex.ghost['_order%d' % ord_] = V(VList(it.order_of_set))
    ex.assume(n >= 0)
    saved_ghost = dict(ex.ghost)
    outer_loop = getattr(ex, 'cur_loop', None)
    ex.cur_loop = ord_
    iname = '_i%d' % ord_
    # inv-init
    ex.ghost['_i'] = V(VInt(z3.IntVal(0)))
    ex.ghost[iname] = ex.ghost['_i']
    for j, inv in enumerate(invs):
        ex.oblige('inv-init', eval_spec(ex, inv), label='loop%d.init.%d' % (ord_, j))
    # havoc
    before = {}
    for nm in sorted(mods):
        if nm in ex.env:
            cur = ex.env[nm]
            if isinstance(cur, SObj):
                # a record keeps its identity (callers and postconditions see the same object)
                from .calls import snapshot, adopt
                before[nm] = snapshot(cur)
                adopt(cur, havoc(ex, cur, nm))
            else:
                before[nm] = cur
                ex.env[nm] = havoc(ex, cur, nm)
            ex.poisoned.discard(nm)
    i = fresh('i', vl.Int)
    ex.eng.nonneg.add(i.get_id())
    ex.eng._nonneg_keep.append(i)
    nn = vl.simp(n)
    ex.eng._nonneg_keep.append(nn)
    ex.eng.le_len.setdefault(i.get_id(), set()).add(nn.get_id())       # i <= n (assumed next)
    ex.assume(z3.And(i >= 0, i <= n))
    ex.ghost['_i'] = V(VInt(i))
    ex.ghost[iname] = ex.ghost['_i']
    for inv in invs:
        ex.assume(eval_spec(ex, inv))
    dec = ex.contract.decreases.get(ord_) if ex.contract else None
    if ex.branch(i < n):
        # quantified facts about the elements of a sequence (forall_idx) are instantiated at the
        # current index: sound, and it saves the solvers the search for the instance
        flat = []
        for p in list(ex.pc):
            flat.extend(p.children() if z3.is_and(p) else [p])
        from . import solve
        for p in flat:
            if z3.is_quantifier(p) and p.is_forall() and p.num_vars() == 1 and p.var_sort(0) == vl.Int:
                inst = z3.substitute_vars(p.body(), i)
                # guard => C with a guard that holds at this index: C itself (so that a specification
                # predicate in C is unfolded by assume)
                if z3.is_implies(inst) and not solve.feasible_forked(list(ex.pc) + [z3.Not(inst.arg(0))], 300):
                    ex.assume(inst.arg(1))
                else:
                    ex.assume(inst)
        i1 = vl.simp(i + 1)                  # inside the body i < n: i + 1 <= n
        ex.eng._nonneg_keep.append(i1)
        ex.eng.le_len.setdefault(i1.get_id(), set()).add(nn.get_id())
        ex.iter_envs = dict(getattr(ex, 'iter_envs', {}))
        ex.iter_envs[ord_] = dict(ex.env)
        ex.bind_target(st.target, it.elem(i), st)
        from . import mutate
        if getattr(it, 'order_of_set', None) is not None:
            # elements of a set are hashable, hence immutable: they alias nothing that can be mutated
            for nm_ in [x.id for x in ast.walk(st.target) if isinstance(x, ast.Name)]:
                ex.roots[nm_] = set()
        else:
            mutate.record_roots(ex, st.target, st.iter)
        for nm_ in [x.id for x in ast.walk(st.target) if isinstance(x, ast.Name)]:
            ex.fresh_outer[nm_] = False
        ex.in_loop_body += 1
        try:
            try:
                ex.run_block(st.body)
            except ContinueSig:
                pass
        except BreakSig:
            ex.in_loop_body -= 1
            ex.ghost = saved_ghost
            ex.cur_loop = outer_loop
            return
        ex.in_loop_body -= 1
        ex.ghost['_i'] = V(VInt(i + 1))
        ex.ghost[iname] = ex.ghost['_i']
        if it.seq is not None:
            # theorems of the sequence theory that the solvers do not find by themselves: the prefix
            # of length i+1 is the prefix of length i followed by element i (0 <= i < len)
            pre1 = z3.SubSeq(it.seq, 0, i + 1)
            ex.pc.append(z3.SubSeq(pre1, 0, i) == z3.SubSeq(it.seq, 0, i))
            ex.pc.append(pre1[i] == it.seq[i])
            ex.pc.append(z3.Length(pre1) == i + 1)
            ex.pc.append(pre1 == z3.Concat(z3.SubSeq(it.seq, 0, i), z3.Unit(it.seq[i])))
        for j, inv in enumerate(invs):
            ex.oblige('inv-step', eval_spec(ex, inv), label='loop%d.step.%d' % (ord_, j))
        for nm, b in before.items():
            if nm in ex.env:
                shape_preserved(ex, b, ex.env[nm], nm, st)
        raise PathEnd()
    ex.assume(i == n)
    ex.ghost = saved_ghost
    ex.ghost['_n%d' % ord_] = V(VInt(n))
    ex.cur_loop = outer_loop


def run_while(ex, st):
    if st.orelse:
        raise Unsupported('while/else')
    mods = modified_names(st.body)
    ord_, invs = loop_setup(ex, st, mods)
    outer_loop = getattr(ex, 'cur_loop', None)
    ex.cur_loop = ord_
    for j, inv in enumerate(invs):
        ex.oblige('inv-init', eval_spec(ex, inv), label='loop%d.init.%d' % (ord_, j))
    before = {}
    for nm in sorted(mods):
        if nm in ex.env:
            cur = ex.env[nm]
            if isinstance(cur, SObj):
                # a record keeps its identity (callers and postconditions see the same object)
                from .calls import snapshot, adopt
                before[nm] = snapshot(cur)
                adopt(cur, havoc(ex, cur, nm))
            else:
                before[nm] = cur
                ex.env[nm] = havoc(ex, cur, nm)
            ex.poisoned.discard(nm)
    for inv in invs:
        ex.assume(eval_spec(ex, inv))
    dec = ex.contract.decreases.get(ord_) if ex.contract else None
    m0 = None
    if dec is not None:
        m0 = get_i(as_val(eval_spec_val(ex, dec)))
    always = isinstance(st.test, ast.Constant) and st.test.value is True
    if always or ex.branch(as_bool(ex.ev(st.test))):
        ex.in_loop_body += 1
        try:
            try:
                ex.run_block(st.body)
            except ContinueSig:
                pass
        except BreakSig:
            ex.in_loop_body -= 1
            ex.cur_loop = outer_loop
            return
        ex.in_loop_body -= 1
        for j, inv in enumerate(invs):
            ex.oblige('inv-step', eval_spec(ex, inv), label='loop%d.step.%d' % (ord_, j))
        for nm, b in before.items():
            if nm in ex.env:
                shape_preserved(ex, b, ex.env[nm], nm, st)
        if dec is not None:
            m1 = get_i(as_val(eval_spec_val(ex, dec)))
            ex.oblige('decreases', z3.And(m0 >= 0, m1 < m0), label='loop%d.decreases' % ord_)
        raise PathEnd()
    ex.cur_loop = outer_loop
