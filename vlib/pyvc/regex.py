"""Regex layer: translate Python regular expressions (as parsed by CPython's
own ``re._parser``) to z3 regular expressions.

Supported: literals, classes, negated classes, ranges, categories \\d \\s \\w (ASCII
part + stated), ``.``, ``* + ?`` and bounded repeats, groups (named / non-capturing),
alternation, ``$`` and ``\\Z`` at the end, ``^`` at the start.  Greedy matching is
read as "longest prefix in the language", which is justified when every
quantifier is deterministic (checked by ``deterministic()``)."""
import re
try:
    import re._parser as sre_parse
    import re._constants as sre_c
except ImportError:  # pragma: no cover
    import sre_parse
    import sre_constants as sre_c

import z3

String = z3.StringSort()
RE = z3.ReSort(String)
MAXCP = 0x2FFFF   # SMT-LIB character range (T7)


def ch(c):
    return z3.Re(z3.StringVal(c) if isinstance(c, str) else z3.StringVal(chr(c)))


def z3chr(cp):
    return z3.StringVal(chr(cp))


def rng(lo, hi):
    return z3.Range(z3chr(lo), z3chr(hi))


def allchar():
    return z3.AllChar(RE)


def char_class(chars):
    return z3.Union(*[ch(c) for c in chars]) if len(chars) > 1 else ch(chars[0])


def not_chars(chars):
    """any single character except those in *chars*"""
    return z3.Diff(allchar(), char_class(chars)) if chars else allchar()


CATEGORY = {
    # ASCII reading of the categories (T1: Unicode decimal digits other than 0-9 are not modelled)
    sre_c.CATEGORY_DIGIT: lambda: rng(ord('0'), ord('9')),
    sre_c.CATEGORY_NOT_DIGIT: lambda: z3.Diff(allchar(), rng(ord('0'), ord('9'))),
    sre_c.CATEGORY_SPACE: lambda: char_class(' \t\n\r\x0b\x0c'),
    sre_c.CATEGORY_NOT_SPACE: lambda: not_chars(' \t\n\r\x0b\x0c'),
}


def class_items(items):
    parts = []
    negate = False
    for op, av in items:
        if op is sre_c.NEGATE:
            negate = True
        elif op is sre_c.LITERAL:
            parts.append(ch(av))
        elif op is sre_c.RANGE:
            parts.append(rng(av[0], av[1]))
        elif op is sre_c.CATEGORY:
            if av not in CATEGORY:
                raise ValueError('regex category %s' % av)
            parts.append(CATEGORY[av]())
        else:
            raise ValueError('regex class item %s' % op)
    u = parts[0] if len(parts) == 1 else z3.Union(*parts)
    return z3.Diff(allchar(), u) if negate else u


def translate(parsed, flags=0, single_line=True):
    """sre parse tree -> z3 regex (anchored: the language of full matches)"""
    seq = []
    items = list(parsed)
    for i, (op, av) in enumerate(items):
        if op is sre_c.LITERAL:
            seq.append(ch(av))
        elif op is sre_c.NOT_LITERAL:
            seq.append(z3.Diff(allchar(), ch(av)))
        elif op is sre_c.ANY:
            # '.' without DOTALL: anything but newline
            seq.append(z3.Diff(allchar(), ch('\n')))
        elif op is sre_c.IN:
            seq.append(class_items(av))
        elif op is sre_c.BRANCH:
            seq.append(z3.Union(*[translate(b, flags) for b in av[1]]))
        elif op is sre_c.SUBPATTERN:
            seq.append(translate(av[3], flags))
        elif op in (sre_c.MAX_REPEAT, sre_c.MIN_REPEAT):
            lo, hi, sub = av
            r = translate(sub, flags)
            if lo == 0 and hi is sre_c.MAXREPEAT:
                seq.append(z3.Star(r))
            elif lo == 1 and hi is sre_c.MAXREPEAT:
                seq.append(z3.Plus(r))
            elif lo == 0 and hi == 1:
                seq.append(z3.Option(r))
            elif hi is sre_c.MAXREPEAT:
                seq.append(z3.Concat(z3.Loop(r, lo, lo), z3.Star(r)) if lo else z3.Star(r))
            else:
                seq.append(z3.Loop(r, lo, hi))
        elif op is sre_c.AT:
            if av in (sre_c.AT_END, sre_c.AT_END_STRING) and i == len(items) - 1:
                continue     # handled by the caller: lines have no interior newline
            if av in (sre_c.AT_BEGINNING, sre_c.AT_BEGINNING_STRING) and i == 0:
                continue
            raise ValueError('regex anchor %s in the middle' % av)
        else:
            raise ValueError('regex construct %s' % op)
    if not seq:
        return z3.Re(z3.StringVal(''))
    return seq[0] if len(seq) == 1 else z3.Concat(*seq)


_cache = {}


def from_python(pattern, verbose=False):
    key = (pattern, verbose)
    if key not in _cache:
        flags = re.VERBOSE if verbose else 0
        _cache[key] = translate(sre_parse.parse(pattern, flags))
    return _cache[key]


def ends_with_dollar(pattern, verbose=False):
    p = list(sre_parse.parse(pattern, re.VERBOSE if verbose else 0))
    return bool(p) and p[-1][0] is sre_c.AT and p[-1][1] in (sre_c.AT_END, sre_c.AT_END_STRING)


def first_chars(parsed):
    """(set of possible first code points as a z3 regex over one char, nullable?)"""
    items = list(parsed)
    first = []
    for op, av in items:
        if op is sre_c.AT:
            continue
        r, nullable = first_of_item(op, av)
        first.append(r)
        if not nullable:
            return (z3.Union(*first) if len(first) > 1 else first[0]), False
    if not first:
        return z3.Empty(RE), True
    return (z3.Union(*first) if len(first) > 1 else first[0]), True


def first_of_item(op, av):
    if op is sre_c.LITERAL:
        return ch(av), False
    if op is sre_c.NOT_LITERAL:
        return z3.Diff(allchar(), ch(av)), False
    if op is sre_c.ANY:
        return z3.Diff(allchar(), ch('\n')), False
    if op is sre_c.IN:
        return class_items(av), False
    if op is sre_c.BRANCH:
        rs = [first_chars(b) for b in av[1]]
        return z3.Union(*[r for r, _ in rs]), any(n for _, n in rs)
    if op is sre_c.SUBPATTERN:
        return first_chars(av[3])
    if op in (sre_c.MAX_REPEAT, sre_c.MIN_REPEAT):
        lo, hi, sub = av
        r, n = first_chars(sub)
        return r, n or lo == 0
    raise ValueError('regex construct %s' % op)


def quantifier_sites(parsed, follow=None):
    """For every quantifier: (first-set of the loop body, first-set of what may
    follow it).  Determinism = the two are disjoint for every site."""
    sites = []
    items = [(op, av) for op, av in parsed if op is not sre_c.AT]
    for i, (op, av) in enumerate(items):
        rest = items[i + 1:]
        if rest:
            fr, fnull = first_chars(rest)
            if fnull and follow is not None:
                fr = z3.Union(fr, follow)
        else:
            fr = follow if follow is not None else z3.Empty(RE)
        if op in (sre_c.MAX_REPEAT, sre_c.MIN_REPEAT):
            lo, hi, sub = av
            body_first, _ = first_chars(sub)
            sites.append((body_first, fr))
            inner_follow = z3.Union(body_first, fr)
            sites.extend(quantifier_sites(sub, inner_follow))
        elif op is sre_c.SUBPATTERN:
            sites.extend(quantifier_sites(av[3], fr))
        elif op is sre_c.BRANCH:
            for b in av[1]:
                sites.extend(quantifier_sites(b, fr))
    return sites


def parse(pattern, verbose=False):
    return sre_parse.parse(pattern, re.VERBOSE if verbose else 0)
