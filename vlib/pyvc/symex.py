"""Symbolic executor / verification-condition generator over the real penman AST.

Forward symbolic execution with path splitting (decision traces, DFS), loops cut
by sidecar invariants, modular calls (callee contract, never its body),
recursive spec functions as z3 RecFunctions.  Everything that is not understood
raises ``Unsupported`` -> the function's obligations are UNDECIDED, never held.
"""
import ast
import os
import itertools

import z3

from . import values as vl
from .values import (Val, SeqVal, SetVal, VNone, VBool, VInt, VFloat, VStr, VTuple, VList, VObj,
                     is_none, is_bool, is_int, is_float, is_str, is_tuple, is_list, is_obj,
                     get_b, get_i, get_r, get_s, get_items, get_elems, get_cls, get_fields,
                     S, vstr, vint, vbool, seq_of, vtuple, vlist, vobj, truthy)


class Unsupported(Exception):
    pass


class Infeasible(Exception):
    pass


class PyRaise(Exception):
    def __init__(self, exc, payload=None, node=None):
        self.exc = exc          # exception class name
        self.payload = payload  # dict of symbolic attributes (DecodeError lineno/offset)
        self.node = node


class ReturnSig(Exception):
    def __init__(self, value):
        self.value = value


class BreakSig(Exception):
    pass


class ContinueSig(Exception):
    pass


class PathEnd(Exception):
    """loop body finished (inv-step checked) -- this path stops here"""


# ---------------------------------------------------------------------------
# symbolic values

class SV:
    pass


class V(SV):
    """a Val term"""
    def __init__(self, t):
        assert t.sort() == Val, t.sort()
        self.t = t


class SSet(SV):
    """a set given by the sequence of its elements (membership = seq.contains), optionally
    minus the elements of a second sequence; no arrays, lambdas or quantifiers"""
    def __init__(self, inc=None, exc=None, pred=None, sid=None):
        # either sequence-backed (inc, optional exc) or given by a membership predicate
        # (a meta-level function  Val term -> Bool term), e.g. a specification predicate;
        # sid: a constant of sort SetS naming the set (for passing it to specification functions)
        self.inc, self.exc, self.pred, self.sid = inc, exc, pred, sid

    def setid(self, ex):
        if self.sid is None:
            if ex is None or getattr(ex, 'no_assume', False):
                raise Unsupported('a constructed set passed to a specification function inside a definition')
            k = fresh('k', Val)
            if self.pred is None and self.exc is None:
                # the set of a sequence's elements is a function of the sequence (two mentions of the
                # same sequence name the same set)
                self.sid = vl.set_of_seq(self.inc)
            else:
                self.sid = fresh('set', vl.SetS)
            ex.assume(z3.ForAll([k], vl.set_mem(self.sid, k) == self.mem(k)))
        return self.sid

    def mem(self, k):
        if self.pred is not None:
            return self.pred(k)
        m = z3.Contains(self.inc, z3.Unit(k))
        if self.exc is not None:
            m = z3.And(m, z3.Not(z3.Contains(self.exc, z3.Unit(k))))
        return m

    def plain(self):
        if self.exc is not None or self.pred is not None:
            raise Unsupported('a set given by a predicate/difference used where its element sequence is needed')
        return self.inc

    def added(self, x):
        if self.pred is None and self.exc is None:
            return SSet(z3.Concat(self.inc, z3.Unit(x)))
        old = self
        return SSet(pred=lambda k: z3.Or(k == x, old.mem(k)))

    def union(self, other):
        if self.pred is None and self.exc is None and other.pred is None and other.exc is None:
            return SSet(z3.Concat(self.inc, other.inc))
        a, b = self, other
        return SSet(pred=lambda k: z3.Or(a.mem(k), b.mem(k)))

    def minus(self, other):
        if self.pred is None and self.exc is None and other.pred is None and other.exc is None:
            return SSet(self.inc, other.inc)
        a, b = self, other
        return SSet(pred=lambda k: z3.And(a.mem(k), z3.Not(b.mem(k))))


class SDict(SV):
    def __init__(self, dom, val, keys=None, vkind='val', default=None):
        self.dom, self.val, self.keys, self.vkind, self.default = dom, val, keys, vkind, default

    def copy(self):
        return SDict(self.dom, self.val, self.keys, self.vkind, self.default)


class SObj(SV):
    """mutable record (Graph, Tree, TokenIterator); aliasing is not modelled:
    an SObj is owned by exactly one name"""
    def __init__(self, cls, fields):
        self.cls, self.fields = cls, fields


class SModel(SV):
    def __init__(self, m):
        self.m = m


class SFunc(SV):
    def __init__(self, kind, **kw):
        self.kind = kind
        self.__dict__.update(kw)


class SClass(SV):
    def __init__(self, name):
        self.name = name


class SModuleRef(SV):
    def __init__(self, name):
        self.name = name


class SGen(SV):
    """generator expression / iterator over a sequence term"""
    def __init__(self, seq):
        self.seq = seq


class SOpaque(SV):
    """value the engine does not model (logger, compiled regex); any use is Unsupported"""
    def __init__(self, what):
        self.what = what


ERROR_CLASSES = {'DecodeError', 'ModelError', 'SurfaceError', 'LayoutError', 'GraphError',
                 'ConstantError', 'ValueError', 'KeyError', 'IndexError', 'TypeError',
                 'AttributeError', 'StopIteration', 'AssertionError', 'UnboundLocalError',
                 'Exception', 'PenmanError', 'JSONDecodeError', 'RecursionError'}
EXC_PARENTS = {'DecodeError': 'PenmanError', 'ModelError': 'PenmanError', 'SurfaceError': 'PenmanError',
               'LayoutError': 'PenmanError', 'GraphError': 'PenmanError', 'ConstantError': 'PenmanError',
               'PenmanError': 'Exception', 'JSONDecodeError': 'ValueError', 'ValueError': 'Exception',
               'KeyError': 'Exception', 'IndexError': 'Exception', 'TypeError': 'Exception',
               'AttributeError': 'Exception', 'StopIteration': 'Exception', 'AssertionError': 'Exception',
               'UnboundLocalError': 'Exception', 'RecursionError': 'Exception'}


def exc_matches(raised, handler):
    x = raised
    while x is not None:
        if x == handler:
            return True
        x = EXC_PARENTS.get(x)
    return False


class Obligation:
    def __init__(self, name, kind, pc, goal, info=None):
        self.name, self.kind, self.pc, self.goal, self.info = name, kind, list(pc), goal, info or {}


_counter = itertools.count()


def fresh(prefix, sort):
    return z3.Const('%s!%d' % (prefix, next(_counter)), sort)


# ---------------------------------------------------------------------------

class Engine:
    """Holds the repository source, the sidecar and the spec-function table."""

    def __init__(self, repo, sidecar, feas_timeout_ms=150):
        self.repo = repo
        self.sidecar = sidecar
        self.lemmas_used = set()
        self.assumed_contracts = set()   # callee contracts used but not proved here (bounded / axiom)
        self.contracts_called = set()    # every callee contract a verified function relied on
        self.le_len = {}          # id of an integer term -> ids of sequence-length terms it is known not to exceed
        self.nonneg = set()       # ids of integer terms known to be >= 0 (bound indices, loop counters)
        self._nonneg_keep = []    # (keeps the terms alive so that ids are not reused)
        self.feas_cache = {}
        self.spec_funcs = {}      # name -> (z3 func, param kinds, ret kind)
        self.spec_defined = set()
        self.feas_timeout_ms = feas_timeout_ms
        self.notes = []
        self._declare_specs()

    # -- spec functions ------------------------------------------------------
    KIND_SORT = {'val': Val, 'str': vl.String, 'int': vl.Int, 'list': SeqVal, 'tuple': SeqVal, 'node': Val,
                 'set': vl.SetS, 'Model': vl.ModelS, 'bool': vl.Bool, 'zint': vl.Int, 'zstr': vl.String,
                 'seq': SeqVal, 'map': vl.MapVal}

    def _spec_calls(self, c):
        import ast as _ast
        return {n.func.id for n in _ast.walk(c.fn) if isinstance(n, _ast.Call)
                and isinstance(n.func, _ast.Name) and n.func.id in self.sidecar.specs}

    def _declare_specs(self):
        # a spec function that cannot reach itself is expanded at every use (no z3 function)
        graph = {n: self._spec_calls(c) for n, c in self.sidecar.specs.items()}
        self.inline_specs = set()
        for n in graph:
            seen, todo = set(), list(graph[n])
            while todo:
                x = todo.pop()
                if x not in seen:
                    seen.add(x)
                    todo.extend(graph[x])
            if n not in seen and not self.sidecar.specs[n].options.get('uninterpreted') \
                    and not self.sidecar.specs[n].options.get('opaque'):
                self.inline_specs.add(n)
        Engine._instances = getattr(Engine, '_instances', 0) + 1
        sfx = '' if Engine._instances == 1 else '__%d' % Engine._instances
        for name, c in self.sidecar.specs.items():
            sorts = [srt for _, ty in c.params for srt in self.kind_sorts(ty)]
            ret = self.KIND_SORT[c.ret or 'val']
            # ('sp_' keeps specification names clear of SMT-LIB theory symbols such as `select`)
            if c.options.get('uninterpreted') or name in self.inline_specs:
                f = z3.Function('sp_' + name, *(sorts + [ret]))
            else:
                f = z3.RecFunction('sp_' + name + sfx, *(sorts + [ret]))
            self.spec_funcs[name] = (f, [ty for _, ty in c.params], c.ret or 'val')
        for name, c in self.sidecar.specs.items():
            if c.options.get('uninterpreted') or name in self.inline_specs:
                continue
            f, kinds, retk = self.spec_funcs[name]
            params = []
            ex = Exec(self, None, None, spec_mode=True)
            ex.no_assume = True
            env = {}
            for p, ty in c.params:
                zs = [z3.Const('%s_%s_%d' % (name, p, j), srt) for j, srt in enumerate(self.kind_sorts(ty))]
                params.extend(zs)
                env[p] = self.wrap_kind(zs[0] if len(zs) == 1 else zs, ty)
            ex.env = env
            ex.module = None
            body = ex.merge_block([s for s in c.fn.body
                                   if not (isinstance(s, ast.Expr) and isinstance(s.value, ast.Constant))])
            z3.RecAddDefinition(f, params, vl.simp(self.unwrap_kind(body, retk)))

    def unfold_app(self, t):
        """the definition of a recursive specification function applied to the arguments of *t*
        (one unfolding), or None"""
        if not hasattr(self, '_rec_by_decl'):
            self._rec_by_decl = {f.name(): n for n, (f, _, _) in self.spec_funcs.items()
                                 if not (self.sidecar.specs[n].options.get('uninterpreted') or n in self.inline_specs)}
        if not z3.is_app(t):
            return None
        name = self._rec_by_decl.get(t.decl().name())
        if name is None:
            return None
        c = self.sidecar.specs[name]
        _, kinds, retk = self.spec_funcs[name]
        ex = Exec(self, None, None, spec_mode=True)
        ex.no_assume = True
        ex.module = None
        args = list(t.children())
        env, j = {}, 0
        for pname, ty in c.params:
            n = len(self.kind_sorts(ty))
            zs = args[j:j + n]
            j += n
            env[pname] = self.wrap_kind(zs[0] if n == 1 else zs, ty)
        ex.env = env
        body = ex.merge_block([st for st in c.fn.body
                               if not (isinstance(st, ast.Expr) and isinstance(st.value, ast.Constant))])
        return self.unwrap_kind(body, retk)

    def kind_sorts(self, ty):
        if ty == 'dict':
            return [SetVal, vl.MapVal]
        return [self.KIND_SORT[ty]]

    def wrap_kind(self, z, ty):
        if ty == 'dict':
            return SDict(z[0], z[1], None)
        if ty == 'str':
            return V(VStr(z))
        if ty == 'int':
            return V(VInt(z))
        if ty == 'list':
            return V(VList(z))
        if ty == 'tuple':
            return V(VTuple(z))
        if ty in ('val', 'node'):
            return V(z)
        if ty == 'set':
            return SSet(pred=lambda k, z=z: vl.set_mem(z, k), sid=z)
        if ty == 'Model':
            return SModel(z)
        if ty == 'bool':
            return V(VBool(z))
        if ty == 'zint':
            return V(VInt(z))
        if ty == 'zstr':
            return V(VStr(z))
        if ty == 'seq':
            return V(VList(z))
        raise Unsupported('kind ' + ty)

    def unwrap_kinds(self, sv, ty):
        if ty == 'dict':
            if not isinstance(sv, SDict) or sv.vkind != 'val':
                raise Unsupported('expected a dict')
            return [sv.dom, sv.val]
        return [self.unwrap_kind(sv, ty)]

    def unwrap_kind(self, sv, ty):
        if ty == 'str':
            return get_s(as_val(sv))
        if ty == 'int':
            return get_i(as_val(sv))
        if ty == 'list':
            return vl.simp(get_elems(as_val(sv)))
        if ty == 'tuple':
            return vl.simp(get_items(as_val(sv)))
        if ty in ('val', 'node'):
            return as_val(sv)
        if ty == 'set':
            if not isinstance(sv, SSet):
                raise Unsupported('expected a set')
            return sv.setid(getattr(self, '_cur_ex', None))
        if ty == 'Model':
            if not isinstance(sv, SModel):
                raise Unsupported('expected a model')
            return sv.m
        if ty == 'bool':
            return as_bool(sv)
        if ty == 'zint':
            return get_i(as_val(sv))
        if ty == 'zstr':
            return get_s(as_val(sv))
        if ty == 'seq':
            return get_elems(as_val(sv))
        raise Unsupported('kind ' + ty)

    # -- parameters of a function under contract ---------------------------------------
    def make_param(self, name, ty, assume, ex=None):
        """Fresh symbolic parameter of declared type *ty*; type invariants are
        added through *assume* (they are preconditions)."""
        if ty == 'str':
            return V(VStr(fresh(name, vl.String)))
        if ty == 'int':
            return V(VInt(fresh(name, vl.Int)))
        if ty == 'bool':
            return V(VBool(fresh(name, vl.Bool)))
        if ty == 'list':
            return V(VList(fresh(name, SeqVal)))
        if ty == 'tuple':
            return V(VTuple(fresh(name, SeqVal)))
        if ty == 'val':
            return V(fresh(name, Val))
        if ty == 'optstr':
            v = fresh(name, Val)
            assume(z3.Or(is_none(v), is_str(v)))
            return V(v)
        if ty == 'optint':
            v = fresh(name, Val)
            assume(z3.Or(is_none(v), is_int(v)))
            return V(v)
        if ty == 'atom':     # Constant / Target: str | int | float | None
            v = fresh(name, Val)
            assume(z3.Or(is_none(v), is_str(v), is_int(v), is_float(v)))
            return V(v)
        if ty in ('optlist', 'optdict', 'optodict', 'optset') and ex is not None:
            if ex.branch(fresh(name + '_is_none', vl.Bool)):
                return V(VNone)
            return self.make_param(name, {'optlist': 'list', 'optdict': 'dict', 'optodict': 'odict',
                                          'optset': 'set'}[ty], assume, ex)
        if ty == 'set':
            z = fresh(name, vl.SetS)
            st = SSet(pred=lambda k, z=z: vl.set_mem(z, k), sid=z)
            st.nonempty = fresh(name + '_nonempty', vl.Bool)
            k = fresh('k', Val)
            assume(z3.Or(st.nonempty, z3.ForAll([k], z3.Not(vl.set_mem(z, k)))))
            return st
        if ty == 'Model':
            return SModel(fresh(name, vl.ModelS))
        if ty == 'dict':
            return SDict(fresh(name + '_dom', SetVal), fresh(name + '_val', vl.MapVal), None)
        if ty == 'odict':    # dict whose iteration order matters
            return SDict(fresh(name + '_dom', SetVal), fresh(name + '_val', vl.MapVal),
                         fresh(name + '_keys', SeqVal))
        if ty == 'Graph':
            return SObj('Graph', {
                'triples': V(VList(fresh(name + '_triples', SeqVal))),
                '_top': V(fresh(name + '_top', Val)),
                'epidata': SDict(fresh(name + '_epi_dom', SetVal), fresh(name + '_epi_val', vl.MapVal),
                                 fresh(name + '_epi_keys', SeqVal)),
                'metadata': SDict(fresh(name + '_md_dom', SetVal), fresh(name + '_md_val', vl.MapVal),
                                  fresh(name + '_md_keys', SeqVal)),
            })
        if ty == 'Tree':
            return SObj('Tree', {
                'node': V(fresh(name + '_node', Val)),
                'metadata': SDict(fresh(name + '_md_dom', SetVal), fresh(name + '_md_val', vl.MapVal),
                                  fresh(name + '_md_keys', SeqVal)),
            })
        if ty == 'obj':
            # an object whose value is only an abstract state (used where functions are composed and
            # nothing but their order and arguments matters)
            return SObj('Opaque', {'state': V(fresh(name + '_state', Val))})
        if ty == 'Codec':
            return SObj('PENMANCodec', {'model': SModel(fresh(name + '_model', vl.ModelS))})
        if ty == 'Iter':
            return SObj('Iter', {'seq': V(VList(fresh(name + '_seq', SeqVal)))})
        if ty == 'TokenIterator':
            # the real fields: one token of lookahead, the last token returned, the underlying iterator
            return SObj('TokenIterator', {
                '_next': V(fresh(name + '_next', Val)),
                '_last': V(fresh(name + '_last', Val)),
                'iterator': SObj('Iter', {'seq': V(VList(fresh(name + '_iter', SeqVal)))}),
            })
        if ty == 'keyfn':
            return SFunc('keyfn', fn=vl.key_fn)
        raise Unsupported('parameter type %r' % ty)


def as_val(sv):
    if isinstance(sv, V):
        return sv.t
    raise Unsupported('expected a plain value, got %s' % type(sv).__name__)


def as_bool(sv):
    """z3 Bool for the truthiness of sv"""
    if isinstance(sv, V):
        t = sv.t
        if z3.is_app(t) and t.decl().name() == 'VBool':
            return t.arg(0)
        return vl.simp(truthy(t))
    if isinstance(sv, SSet):
        if getattr(sv, 'nonempty', None) is not None:
            return sv.nonempty
        if sv.pred is None and sv.exc is None:
            return z3.Length(sv.inc) > 0
        raise Unsupported('truthiness of a set')
    if isinstance(sv, SDict):
        if sv.keys is not None:
            return z3.Length(sv.keys) > 0
        raise Unsupported('truthiness of an unordered dict')
    if isinstance(sv, SFunc) and sv.kind == 'rematch':
        return sv.matched        # a match object is truthy, None (no match) is not
    if isinstance(sv, (SObj, SModel, SFunc, SClass)):
        return z3.BoolVal(True)
    raise Unsupported('truthiness of %s' % type(sv).__name__)


def mk_bool(b):
    return V(VBool(b))


def static_kind(t):
    """constructor name when the term is syntactically a constructor application"""
    if z3.is_app(t) and t.decl().kind() == z3.Z3_OP_DT_CONSTRUCTOR:
        return t.decl().name()
    return None


# ---------------------------------------------------------------------------

class Exec:
    """One symbolic execution (one path) of one function."""

    def __init__(self, engine, module, contract, spec_mode=False, trace=None):
        self.eng = engine
        self.module = module
        self.contract = contract
        self.spec_mode = spec_mode
        self.env = {}
        self.pc = []
        self.obligations = []
        self.trace = trace if trace is not None else []
        self.pos = 0
        self.loop_ordinal = 0
        self.fname = ''
        self.ghost = {}
        self.in_loop_body = 0
        self.call_depth = 0
        self.poisoned = set()
        self.roots = {}
        self.fresh_outer = {}
        self.param_names = []

    def env_obj(self, p):
        """the parameter object itself (its final state), even if the name was rebound"""
        return self.param_objs[p]

    # -- path control -------------------------------------------------------------
    def assume(self, cond):
        cond = vl.simp(cond)
        if z3.is_true(cond):
            return
        if z3.is_false(cond):
            raise Infeasible()
        if getattr(self, 'no_assume', False) or (self.contract is not None and self.contract.options.get('frames')):
            self.pc.append(cond)
        else:
            # stated against the constructor tests this path has already decided (equivalent under the
            # path condition): `len(e) == 2` for a known tuple e is then a fact about its items
            for d in self.against_kind_literals(cond.children() if z3.is_and(cond) else [cond]):
                if z3.is_false(d):
                    raise Infeasible()
                if not z3.is_true(d):
                    self.pc.append(d)
        # a specification predicate that is assumed to hold is also given unfolded once (its definition):
        # the facts it stands for (dynamic types, lengths) then decide the case distinctions downstream
        if not getattr(self, 'no_assume', False):
            for c in (cond.children() if z3.is_and(cond) else [cond]):
                if z3.is_app(c) and z3.is_bool(c) and c.num_args() > 0:
                    try:
                        u = self.eng.unfold_app(c)
                    except Unsupported:
                        u = None
                    if u is not None:
                        u = vl.simp(u)
                        if z3.is_false(u):
                            raise Infeasible()
                        if not z3.is_true(u):
                            for d in self.against_kind_literals(u.children() if z3.is_and(u) else [u]):
                                if z3.is_false(d):
                                    raise Infeasible()
                                if not z3.is_true(d):
                                    self.pc.append(d)

    def feasible(self):
        from . import solve
        if self.contract is not None and self.contract.options.get('frames') and self.pos % 4 != 0:
            # frame-only contracts keep only ownership obligations: pruning every branch is not worth it
            return True
        return solve.feasible_forked(self.pc, self.eng.feas_timeout_ms)

    def branch(self, cond):
        """fork on a z3 Bool; returns the Python bool taken on this path"""
        if self.spec_mode:
            raise Unsupported('branching inside a specification expression')
        c = vl.simp(cond)
        if z3.is_true(c):
            return True
        if z3.is_false(c):
            return False
        if self.pos < len(self.trace):
            d = self.trace[self.pos]
        else:
            d = True
            self.trace.append(True)
        self.pos += 1
        self.pc.append(c if d else vl.simp(z3.Not(c)))
        # re-execution replays the same decisions: the feasibility of a decision prefix is cached
        key = (self.fname, id(self.contract), tuple(self.trace[:self.pos]))
        cache = self.eng.feas_cache
        ok = cache.get(key)
        if ok is None:
            ok = self.feasible()
            cache[key] = ok
        if not ok:
            raise Infeasible()
        return d

    def oblige(self, kind, goal, label=None, info=None):
        if self.spec_mode:
            return
        goal = vl.simp(goal)
        if z3.is_true(goal):
            return
        name = '%s:%s' % (self.fname, label or kind)
        info = dict(info or {})
        if getattr(self, 'entry_params', None) is not None:
            info.setdefault('params', self.entry_params)
            info.setdefault('contract', self.contract)
        pc = self.pc
        if self.contract is not None and self.contract.uses and label:
            # lemmas (proved separately, in the same run) given as facts to the obligations named
            facts = []
            for prefix, call in self.contract.uses:
                if label.startswith(prefix):
                    try:
                        facts.append(self.lemma_instance(call))
                    except Unsupported:
                        pass     # (a hint that cannot be evaluated on this path is no hint)
            if facts:
                pc = list(self.pc) + [f for f in facts if not z3.is_true(f)]
        self.obligations.append(Obligation(name, kind, pc, goal, info))

    def lemma_instance(self, call):
        """requires => ensures of a sidecar lemma at the given arguments (evaluated in the current state)"""
        lem = self.eng.sidecar.lemmas.get(call.func.id) if isinstance(call.func, ast.Name) else None
        if lem is None:
            raise Unsupported('use(): %s is not a lemma' % ast.unparse(call.func))
        sm = self.spec_mode
        self.spec_mode = True
        try:
            args = [self.ev(a) for a in call.args]
        finally:
            self.spec_mode = sm
        if len(args) != len(lem.params):
            raise Unsupported('use(): arity of lemma %s' % lem.name)
        sub = Exec(self.eng, None, None, spec_mode=True)
        sub.no_assume = True
        sub.fname = 'lemma.' + lem.name
        for (pn, ty), a in zip(lem.params, args):
            zs = self.eng.unwrap_kinds(a, ty)
            sub.env[pn] = self.eng.wrap_kind(zs[0] if len(zs) == 1 else zs, ty)
        req = [as_bool(sub.ev(r)) for r in lem.requires]
        ens = [as_bool(sub.ev(e)) for _, e in lem.ensures]
        self.eng.lemmas_used.add(lem.name)
        pre = vl.simp(z3.And(*req)) if req else z3.BoolVal(True)
        post = z3.And(*ens)
        if not z3.is_true(pre):
            # a precondition that the literals of this path already decide is discharged here, so that
            # the lemma is available as a plain fact
            from . import solve
            try:
                pc2, pre2 = solve.unit_rewrite(list(self.pc), pre)
                pc3, post2 = solve.unit_rewrite(list(self.pc), post)
                if z3.is_true(pre2):
                    return vl.simp(post2)
            except z3.Z3Exception:
                pass
        return vl.simp(z3.Implies(pre, post))

    def safe(self, cond, exc, what, node=None):
        """The operation raises *exc* unless *cond*.  If the contract allows the
        exception (raises clause) or an enclosing try catches it, fork;
        otherwise it is a `safe` obligation."""
        if self.spec_mode:
            return
        c = vl.simp(cond)
        if z3.is_true(c):
            return
        if self.exc_expected(exc):
            if not self.branch(c):
                raise PyRaise(exc, node=node)
            return
        self.oblige('safe', c, label='safe[%s]:%s@%s' % (exc, what, getattr(node, 'lineno', '?')))
        self.assume(c)

    def exc_expected(self, exc):
        for h in self.handlers:
            if any(exc_matches(exc, x) for x in h):
                return True
        if self.contract is not None:
            for e, _ in self.contract.raises:
                if exc_matches(exc, e):
                    return True
        return False

    handlers = ()

    # ==========================================================================
    # expressions

    def ev(self, e):
        m = getattr(self, 'ev_' + type(e).__name__, None)
        if m is None:
            raise Unsupported('expression %s at line %s' % (type(e).__name__, getattr(e, 'lineno', '?')))
        return m(e)

    def evv(self, e):
        return as_val(self.ev(e))

    def ev_Constant(self, e):
        v = e.value
        if v is None:
            return V(VNone)
        if isinstance(v, bool):
            return V(vbool(v))
        if isinstance(v, int):
            return V(vint(v))
        if isinstance(v, str):
            return V(vstr(v))
        if isinstance(v, float):
            return V(VFloat(z3.RealVal(repr(v))))
        raise Unsupported('constant %r' % (v,))

    def ev_Name(self, e):
        n = e.id
        if n in self.poisoned and not isinstance(self.env.get(n), SSet):
            # (a set holds hashable, hence immutable, elements: no mutation through an alias can change it)
            raise Unsupported('read of %s after a mutation through an alias (line %s)' % (n, e.lineno))
        if n in self.env:
            return self.env[n]
        if n in self.ghost:
            return self.ghost[n]
        return self.global_name(n, e)

    def global_name(self, n, e=None):
        if n in ('True', 'False', 'None'):
            raise Unsupported(n)
        if n in self.eng.spec_funcs:
            return SFunc('spec', name=n)
        if n in BUILTIN_NAMES:
            return SFunc('builtin', name=n)
        if n in vl.CLASSES or n in ERROR_CLASSES:
            return SClass(n)
        if self.module is not None:
            mod = self.module
            if n in mod.funcs:
                return SFunc('pyfunc', module=mod.modname, qualname=n)
            if n in mod.classes:
                return SClass(n)
            if n in mod.consts:
                return self.module_const(mod, n)
            if n in mod.imports:
                src, name = mod.imports[n]
                if name is None:
                    return SModuleRef(src)
                if src.startswith('penman'):
                    try:
                        m2 = self.eng.repo.module(src)
                    except Exception:
                        m2 = None
                    if m2 is not None:
                        if name in m2.funcs:
                            return SFunc('pyfunc', module=src, qualname=name)
                        if name in m2.classes:
                            return SClass(name)
                        if name in m2.consts:
                            return self.module_const(m2, name)
                    # `from penman import layout`
                    try:
                        self.eng.repo.module(src + '.' + name)
                        return SModuleRef(src + '.' + name)
                    except Exception:
                        pass
                if src == 'typing':
                    return SFunc('builtin', name='typing.' + name)
                return SModuleRef(src + ':' + name)
        raise Unsupported('unknown name %s (line %s)' % (n, getattr(e, 'lineno', '?')))

    def module_const(self, mod, n):
        v = mod.consts[n]
        if isinstance(v, ast.Constant):
            return self.ev_Constant(v)
        if isinstance(v, ast.Call) and isinstance(v.func, ast.Name) and v.func.id == 'Pop':
            return V(vobj('Pop', []))
        if isinstance(v, ast.Call) and isinstance(v.func, ast.Attribute) and v.func.attr == 'getLogger':
            return SOpaque('logger')
        if isinstance(v, ast.Call) and isinstance(v.func, ast.Name) and v.func.id == 'Model' and not v.args:
            return SModel(z3.Const('default_model', vl.ModelS))
        raise Unsupported('module constant %s.%s' % (mod.modname, n))

    def ev_Tuple(self, e):
        items = []
        for x in e.elts:
            if isinstance(x, ast.Starred):
                raise Unsupported('starred tuple element')
            items.append(self.evv(x))
        return V(vtuple(items))

    def ev_List(self, e):
        return V(vlist([self.evv(x) for x in e.elts]))

    def ev_Set(self, e):
        return SSet(seq_of([self.evv(x) for x in e.elts]))

    def ev_Dict(self, e):
        d = SDict(vl.empty_set(), z3.K(Val, VNone), vl.empty_seq())
        for k, v in zip(e.keys, e.values):
            d = self.dict_set(d, self.evv(k), self.ev(v))
        return d

    def ev_JoinedStr(self, e):
        parts = []
        for p in e.values:
            if isinstance(p, ast.Constant):
                parts.append(S(p.value))
            elif isinstance(p, ast.FormattedValue):
                if p.format_spec is not None:
                    raise Unsupported('format spec')
                v = self.evv(p.value)
                if p.conversion == ord('r'):
                    parts.append(self.repr_of(v))
                else:
                    parts.append(self.str_of(v))
            else:
                raise Unsupported('f-string part')
        if not parts:
            return V(vstr(''))
        return V(VStr(parts[0] if len(parts) == 1 else z3.Concat(*parts)))

    def str_of(self, v):
        k = static_kind(v)
        if k == 'VStr':
            return v.arg(0)
        if k == 'VInt' and False:
            return z3.IntToStr(v.arg(0))
        return z3.If(is_str(v), get_s(v), vl.str_of(v))

    def repr_of(self, v):
        return z3.Function('repr_of', Val, vl.String)(v)

    def ev_IfExp(self, e):
        if self.spec_mode:
            c = as_bool(self.ev(e.test))
            a, b = self.ev(e.body), self.ev(e.orelse)
            return self.ite(c, a, b)
        if self.branch(as_bool(self.ev(e.test))):
            return self.ev(e.body)
        return self.ev(e.orelse)

    def ite(self, c, a, b):
        c = vl.simp(c)
        if z3.is_true(c):
            return a
        if z3.is_false(c):
            return b
        # a condition already decided on this path (literally in the path condition) is resolved
        nc = vl.simp(z3.Not(c))
        for p_ in self.pc:
            if p_.eq(c):
                return a
            if p_.eq(nc):
                return b
        if isinstance(a, V) and isinstance(b, V):
            ka, kb = static_kind(a.t), static_kind(b.t)
            if ka == kb and ka in ('VStr', 'VInt', 'VBool', 'VList', 'VTuple', 'VFloat'):
                ctor = {'VStr': VStr, 'VInt': VInt, 'VBool': VBool, 'VList': VList, 'VTuple': VTuple,
                        'VFloat': VFloat}[ka]
                return V(ctor(z3.If(c, a.t.arg(0), b.t.arg(0))))
            return V(z3.If(c, a.t, b.t))
        if isinstance(a, SSet) and isinstance(b, SSet):
            return SSet(pred=lambda k: z3.If(c, a.mem(k), b.mem(k)))
        raise Unsupported('conditional over %s/%s' % (type(a).__name__, type(b).__name__))

    def ev_BoolOp(self, e):
        if self.spec_mode:
            vals = [self.ev(x) for x in e.values]
            # specs use and/or on booleans only
            bs = [as_bool(v) for v in vals]
            return mk_bool(z3.And(*bs) if isinstance(e.op, ast.And) else z3.Or(*bs))
        last = None
        for i, x in enumerate(e.values):
            last = self.ev(x)
            if i == len(e.values) - 1:
                return last
            t = self.branch(as_bool(last))
            if isinstance(e.op, ast.And) and not t:
                return last
            if isinstance(e.op, ast.Or) and t:
                return last
        return last

    def ev_UnaryOp(self, e):
        if isinstance(e.op, ast.Not):
            return mk_bool(z3.Not(as_bool(self.ev(e.operand))))
        if isinstance(e.op, ast.USub):
            v = self.evv(e.operand)
            self.safe(is_int(v), 'TypeError', 'unary minus', e)
            return V(VInt(-get_i(v)))
        raise Unsupported('unary op')

    def ev_Compare(self, e):
        if len(e.ops) > 1 and all(isinstance(o, ast.Is) for o in e.ops) and \
                isinstance(e.comparators[-1], ast.Constant) and e.comparators[-1].value is None:
            # a is b is c is None  <=>  every operand is None
            vals = [self.ev(e.left)] + [self.ev(c) for c in e.comparators[:-1]]
            return mk_bool(z3.And(*[is_none(as_val(v)) if isinstance(v, V) else z3.BoolVal(False) for v in vals]))
        left = self.ev(e.left)
        conj = []
        for op, right_e in zip(e.ops, e.comparators):
            right = self.ev(right_e)
            c = self.compare(op, left, right, e)
            conj.append(c)
            left = right
            if not self.spec_mode and len(e.ops) > 1:
                if not self.branch(c):
                    return mk_bool(z3.BoolVal(False))
        if not self.spec_mode and len(e.ops) > 1:
            return mk_bool(z3.BoolVal(True))
        return mk_bool(z3.And(*conj) if len(conj) > 1 else conj[0])

    def compare(self, op, a, b, node):
        if isinstance(op, (ast.Is, ast.IsNot)):
            if isinstance(b, V) and static_kind(b.t) == 'VNone' and isinstance(a, V):
                c = is_none(a.t)
            elif isinstance(a, V) and static_kind(a.t) == 'VNone' and isinstance(b, V):
                c = is_none(b.t)
            elif isinstance(b, V) and static_kind(b.t) == 'VNone':
                c = z3.BoolVal(False)     # a set/dict/object is never None
            else:
                raise Unsupported('`is` on non-None operands (line %s)' % node.lineno)
            return c if isinstance(op, ast.Is) else z3.Not(c)
        if isinstance(op, (ast.Eq, ast.NotEq)):
            c = self.py_eq(a, b)
            return c if isinstance(op, ast.Eq) else z3.Not(c)
        if isinstance(op, (ast.In, ast.NotIn)):
            c = self.contains(b, a, node)
            return c if isinstance(op, ast.In) else z3.Not(c)
        if isinstance(op, (ast.Lt, ast.LtE, ast.Gt, ast.GtE)):
            x, y = as_val(a), as_val(b)
            self.safe(z3.Or(z3.And(is_int(x), is_int(y)), z3.And(is_str(x), is_str(y))),
                      'TypeError', 'ordering comparison', node)
            if static_kind(x) == 'VStr' or static_kind(y) == 'VStr':
                sx, sy = get_s(x), get_s(y)
                tbl = {ast.Lt: sx < sy, ast.LtE: sx <= sy, ast.Gt: sy < sx, ast.GtE: sy <= sx}
                return tbl[type(op)]
            ix, iy = get_i(x), get_i(y)
            tbl = {ast.Lt: ix < iy, ast.LtE: ix <= iy, ast.Gt: ix > iy, ast.GtE: ix >= iy}
            num = tbl[type(op)]
            if static_kind(x) == 'VInt' or static_kind(y) == 'VInt':
                return num
            sx, sy = get_s(x), get_s(y)
            st = {ast.Lt: sx < sy, ast.LtE: sx <= sy, ast.Gt: sy < sx, ast.GtE: sy <= sx}[type(op)]
            return z3.If(is_int(x), num, st)
        raise Unsupported('comparison operator')

    def py_eq(self, a, b):
        """Python == (structural on Val; T7: cross-type numeric equality not modelled)"""
        if isinstance(a, V) and isinstance(b, V):
            return a.t == b.t
        if isinstance(a, SSet) and isinstance(b, SSet):
            k = fresh('k', Val)     # extensional: same members
            return z3.ForAll([k], a.mem(k) == b.mem(k))
        if isinstance(a, SDict) and isinstance(b, SDict):
            return z3.And(a.dom == b.dom, self.dict_vals_equal(a, b))
        if isinstance(a, SModel) and isinstance(b, SModel):
            return a.m == b.m
        raise Unsupported('== between %s and %s' % (type(a).__name__, type(b).__name__))

    def dict_vals_equal(self, a, b):
        k = fresh('k', Val)
        return z3.ForAll([k], z3.Implies(z3.Select(a.dom, k), z3.Select(a.val, k) == z3.Select(b.val, k)))

    def model_table_has(self, tab, k):
        m = tab.model.m
        if tab.table == 'normalizations':
            return z3.And(is_str(k), vl.m_norm_has(m, get_s(k)))
        if tab.table == 'reifications':
            return vl.m_reif_has(m, k)
        if tab.table == 'dereifications':
            return vl.m_dereif_has(m, k)
        raise Unsupported('model table %s' % tab.table)

    def model_table_get(self, tab, k, node, default=None):
        m = tab.model.m
        has = self.model_table_has(tab, k)
        if tab.table == 'normalizations':
            val = VStr(vl.m_norm(m, get_s(k)))
        elif tab.table == 'reifications':
            val = vl.m_reif(m, k)
        else:
            val = vl.m_dereif(m, k)
        if default is None:
            self.safe(has, 'KeyError', 'model table key', node)
            return V(val)
        return V(z3.If(has, val, as_val(default)))

    def contains(self, container, item, node=None):
        if isinstance(container, SFunc) and container.kind == 'modeltable':
            return self.model_table_has(container, as_val(item))
        if isinstance(container, SSet):
            return container.mem(as_val(item))
        if isinstance(container, SDict):
            return z3.Select(container.dom, as_val(item))
        if isinstance(container, V):
            c, x = container.t, as_val(item)
            k = static_kind(c)
            if k == 'VStr':
                self.safe(is_str(x), 'TypeError', 'in <str>', node)
                return z3.Contains(get_s(c), get_s(x))
            if k in ('VTuple', 'VList'):
                seq = c.arg(0)
                return seq_contains(seq, x)
            self.safe(z3.Or(is_str(c), is_tuple(c), is_list(c)), 'TypeError', 'in', node)
            return z3.If(is_str(c), z3.And(is_str(x), z3.Contains(get_s(c), get_s(x))),
                         z3.If(is_tuple(c), seq_contains(get_items(c), x), seq_contains(get_elems(c), x)))
        raise Unsupported('membership in %s' % type(container).__name__)

    def ev_BinOp(self, e):
        a, b = self.ev(e.left), self.ev(e.right)
        if isinstance(e.op, ast.Add):
            return self.add(a, b, e)
        if isinstance(e.op, ast.Sub):
            if isinstance(a, SSet) and isinstance(b, SSet):
                return a.minus(b)
            x, y = as_val(a), as_val(b)
            self.safe(z3.And(is_int(x), is_int(y)), 'TypeError', '-', e)
            return V(VInt(get_i(x) - get_i(y)))
        if isinstance(e.op, ast.Mult):
            x, y = as_val(a), as_val(b)
            if static_kind(x) == 'VStr' and z3.is_string_value(x.arg(0)) and len(x.arg(0).as_string()) == 1:
                # ' ' * n : a string of n copies of one character
                self.safe(is_int(y), 'TypeError', '*', e)
                ch = x.arg(0)
                n = get_i(y)
                r = fresh('rep', vl.String)
                i = fresh('i', vl.Int)
                self.assume(z3.Length(r) == z3.If(n > 0, n, 0))
                self.assume(z3.InRe(r, z3.Star(z3.Re(ch))))
                return V(VStr(r))
            if static_kind(x) == 'VList':
                # [e1, ...] * n : n copies of a literal list of length 1
                self.safe(is_int(y), 'TypeError', 'list * int', e)
                items = x.arg(0)
                self.safe(z3.Length(items) == 1, 'Unsupported', 'list repetition of a one-element list', e)
                n = get_i(y)
                r = fresh('rep', SeqVal)
                i = fresh('i', vl.Int)
                self.assume(z3.Length(r) == z3.If(n > 0, n, 0))
                self.assume(z3.ForAll([i], z3.Implies(z3.And(i >= 0, i < z3.Length(r)), r[i] == items[0])))
                return V(VList(r))
            self.safe(z3.And(is_int(x), is_int(y)), 'TypeError', '*', e)
            return V(VInt(get_i(x) * get_i(y)))
        if isinstance(e.op, ast.BitOr):
            if isinstance(a, SSet) and isinstance(b, SSet):
                return a.union(b)
            x, y = as_val(a), as_val(b)
            # bool | bool and int | int (exit codes 0/1)
            if static_kind(x) == 'VBool' or static_kind(y) == 'VBool':
                self.safe(z3.And(is_bool(x), is_bool(y)), 'TypeError', '|', e)
                return V(VBool(z3.Or(get_b(x), get_b(y))))
            self.safe(z3.And(is_int(x), is_int(y)), 'TypeError', '|', e)
            self.safe(z3.And(get_i(x) >= 0, get_i(x) <= 1, get_i(y) >= 0, get_i(y) <= 1), 'Unsupported', '| on 0/1', e)
            return V(VInt(z3.If(z3.Or(get_i(x) == 1, get_i(y) == 1), 1, 0)))
        if isinstance(e.op, ast.BitXor):
            x, y = as_val(a), as_val(b)
            self.safe(z3.And(is_bool(x), is_bool(y)), 'TypeError', '^', e)
            return V(VBool(z3.Xor(get_b(x), get_b(y))))
        if isinstance(e.op, ast.BitAnd):
            x, y = as_val(a), as_val(b)
            self.safe(z3.And(is_bool(x), is_bool(y)), 'TypeError', '&', e)
            return V(VBool(z3.And(get_b(x), get_b(y))))
        raise Unsupported('binary operator %s' % type(e.op).__name__)

    def add(self, a, b, node):
        x, y = as_val(a), as_val(b)
        kx, ky = static_kind(x), static_kind(y)
        if kx == 'VStr' or ky == 'VStr':
            self.safe(z3.And(is_str(x), is_str(y)), 'TypeError', 'str +', node)
            return V(VStr(z3.Concat(get_s(x), get_s(y))))
        if kx == 'VList' or ky == 'VList':
            self.safe(z3.And(is_list(x), is_list(y)), 'TypeError', 'list +', node)
            return V(VList(z3.Concat(get_elems(x), get_elems(y))))
        if kx == 'VTuple' or ky == 'VTuple':
            self.safe(z3.And(is_tuple(x), is_tuple(y)), 'TypeError', 'tuple +', node)
            return V(VTuple(z3.Concat(get_items(x), get_items(y))))
        if kx == 'VInt' or ky == 'VInt':
            self.safe(z3.And(is_int(x), is_int(y)), 'TypeError', 'int +', node)
            return V(VInt(get_i(x) + get_i(y)))
        self.safe(z3.Or(z3.And(is_str(x), is_str(y)), z3.And(is_int(x), is_int(y)),
                        z3.And(is_list(x), is_list(y)), z3.And(is_tuple(x), is_tuple(y))), 'TypeError', '+', node)
        return V(z3.If(is_str(x), VStr(z3.Concat(get_s(x), get_s(y))),
                 z3.If(is_int(x), VInt(get_i(x) + get_i(y)),
                 z3.If(is_list(x), VList(z3.Concat(get_elems(x), get_elems(y))),
                       VTuple(z3.Concat(get_items(x), get_items(y)))))))

    # -- subscripts ------------------------------------------------------------------
    def ev_Subscript(self, e):
        base = self.ev(e.value)
        if isinstance(base, SFunc) and base.kind == 'modeltable':
            k = self.evv(e.slice)
            return self.model_table_get(base, k, e)
        if isinstance(base, SDict):
            k = self.evv(e.slice)
            return self.dict_get_item(base, k, e)
        if isinstance(e.slice, ast.Slice):
            return self.slice_of(as_val(base), e.slice, e)
        idx = self.evv(e.slice)
        return V(self.index_of(as_val(base), idx, e))

    def seq_parts(self, v, node, what='subscript'):
        """(is-string?, seq-or-string term getter) for an indexable value"""
        k = static_kind(v)
        if k == 'VStr':
            return 'str', v.arg(0)
        if k == 'VTuple':
            return 'tuple', v.arg(0)
        if k == 'VList':
            return 'list', v.arg(0)
        k = self.known_kind(v)
        if k == 'VStr':
            return 'str', vl.simp(get_s(v))
        if k == 'VTuple':
            return 'tuple', vl.simp(get_items(v))
        if k == 'VList':
            return 'list', vl.simp(get_elems(v))
        return None, None

    def against_kind_literals(self, conjs):
        """the conjuncts with the constructor tests already decided on this path (and by the earlier
        conjuncts) replaced by their truth value: len(e) == 2 for a known tuple e becomes a fact about
        its items"""
        subs = []

        def learn(d):
            if z3.is_app(d) and d.decl().kind() == z3.Z3_OP_DT_IS:
                t = d.arg(0)
                dt = t.sort()
                for k in range(dt.num_constructors()):
                    o = dt.recognizer(k)(t)
                    subs.append((o, z3.BoolVal(o.get_id() == d.get_id())))
        for c in self.pc:
            for d in (c.children() if z3.is_and(c) else [c]):
                learn(d)
        conjs = list(conjs)
        for c in conjs:           # constructor tests among the conjuncts themselves count for their siblings
            learn(c)
        out = []
        for c in conjs:
            if z3.is_app(c) and c.decl().kind() == z3.Z3_OP_DT_IS:
                out.append(c)
                continue
            c2 = vl.simp(z3.substitute(c, *subs)) if subs else c
            for d in (c2.children() if z3.is_and(c2) else [c2]):
                out.append(d)
                learn(d)
        return out

    def known_kind(self, v):
        """constructor of a value: syntactically, or decided by a literal of the path condition
        (is_list(v) assumed earlier on this path)"""
        k = static_kind(v)
        if k is not None:
            return k
        units = getattr(self, '_kind_units', None)
        if units is None or units[0] != len(self.pc):
            true_ids = set()
            for c in self.pc:
                for d in (c.children() if z3.is_and(c) else [c]):
                    if z3.is_app(d) and d.decl().kind() == z3.Z3_OP_DT_IS:
                        true_ids.add(d.get_id())
            units = (len(self.pc), true_ids)
            self._kind_units = units
        if not units[1]:
            return None
        for name, test in (('VList', is_list), ('VTuple', is_tuple), ('VStr', is_str)):
            if test(v).get_id() in units[1]:
                return name
        return None

    def known_len(self, seq):
        """length of a sequence term when a literal of the path condition fixes it (len(x) == 2)"""
        if z3.is_app(seq) and seq.decl().kind() == z3.Z3_OP_SEQ_UNIT:
            return 1
        ln = vl.simp(z3.Length(seq))
        if z3.is_int_value(ln):
            return ln.as_long()
        for c in self.pc:
            for d in (c.children() if z3.is_and(c) else [c]):
                if z3.is_eq(d):
                    a, b = d.arg(0), d.arg(1)
                    if z3.is_int_value(a):
                        a, b = b, a
                    if z3.is_int_value(b) and a.get_id() == ln.get_id():
                        return b.as_long()
        return None

    def is_nonneg(self, t):
        """structurally known to be >= 0: a numeral, a length, a bound index / loop counter, sums of those"""
        if z3.is_int_value(t):
            return t.as_long() >= 0
        if t.get_id() in self.eng.nonneg:
            return True
        if z3.is_app(t):
            k = t.decl().kind()
            if k == z3.Z3_OP_SEQ_LENGTH:
                return True
            if k == z3.Z3_OP_ADD:
                return all(self.is_nonneg(c) for c in t.children())
        return False

    @staticmethod
    def nth_of(seq, j):
        """element j of a sequence; for a sequence that is literally unit ++ unit ++ ... and a numeral j the
        element itself (z3 5.1's simplifier mis-rewrites  nth (unit (ite ..) ++ rest) 1  into
        nth_i (unit ..) 1,  dropping `rest`: an unspecified value instead of the element)"""
        if z3.is_int_value(j):
            parts = []

            def flat(t):
                if z3.is_app(t) and t.decl().kind() == z3.Z3_OP_SEQ_CONCAT:
                    for c in t.children():
                        flat(c)
                else:
                    parts.append(t)
            flat(seq)
            k = j.as_long()
            if 0 <= k < len(parts) and all(z3.is_app(p) and p.decl().kind() == z3.Z3_OP_SEQ_UNIT for p in parts[:k + 1]):
                return parts[k].arg(0)
        return seq[j]

    def index_of(self, v, idx, node):
        self.safe(is_int(idx), 'TypeError', 'index type', node)
        i = vl.simp(get_i(idx))
        # an index known to be non-negative (a bound index of forall_idx/exists_idx, a loop counter) needs
        # no wrap-around case
        nonneg = self.is_nonneg(i)
        kind, seq = self.seq_parts(v, node)
        if kind is None:
            # dynamic: tuple or list (strings need their own path)
            if self.spec_mode:
                seq = z3.If(is_tuple(v), get_items(v), get_elems(v))
                n = z3.Length(seq)
                j = i if nonneg else z3.If(i < 0, i + n, i)
                return seq[j]
            if self.branch(is_str(v)):
                kind, seq = 'str', get_s(v)
            else:
                self.safe(z3.Or(is_tuple(v), is_list(v)), 'TypeError', 'subscript of non-sequence', node)
                seq = z3.If(is_tuple(v), get_items(v), get_elems(v))
                kind = 'seq'
        n = z3.Length(seq)
        j = i if nonneg else vl.simp(z3.If(i < 0, i + n, i))
        self.safe(z3.And(j >= 0, j < n), 'IndexError', 'index in range', node)
        if kind == 'str':
            return VStr(z3.SubString(seq, j, 1))
        return self.nth_of(seq, j)

    def slice_of(self, v, sl, node):
        if sl.step is not None:
            if isinstance(sl.step, ast.Constant) and sl.step.value == 2 and sl.lower is None and sl.upper is None:
                # t[::2] on a triple: (t[0], t[2])
                kind, seq = self.seq_parts(v, node)
                if kind is None:
                    seq = z3.If(is_tuple(v), get_items(v), get_elems(v))
                self.safe(z3.Length(seq) == 3, 'Unsupported', '[::2] on a 3-sequence', node)
                return V(vtuple([seq[0], seq[2]]))
            raise Unsupported('slice step')
        kind, seq = self.seq_parts(v, node)
        if kind is None and self.spec_mode:
            # total semantics on a dynamically typed value: slice it as what it is
            def sl_of(seq_):
                n_ = z3.Length(seq_)

                def bnd(b, default):
                    if b is None:
                        return default
                    x = self.evv(b)
                    i = vl.simp(get_i(x))
                    if self.is_nonneg(i):
                        r = z3.If(i > n_, n_, i)
                    else:
                        r = z3.If(i < 0, z3.If(i + n_ < 0, 0, i + n_), z3.If(i > n_, n_, i))
                    return r if static_kind(x) == 'VInt' else z3.If(is_none(x), default, r)
                lo_, hi_ = bnd(sl.lower, z3.IntVal(0)), bnd(sl.upper, n_)
                return lo_, z3.If(hi_ > lo_, hi_ - lo_, 0)
            lo_s, ln_s = sl_of(get_s(v))
            lo_l, ln_l = sl_of(get_elems(v))
            lo_t, ln_t = sl_of(get_items(v))
            return V(z3.If(is_str(v), VStr(z3.SubString(get_s(v), lo_s, ln_s)),
                           z3.If(is_list(v), VList(z3.SubSeq(get_elems(v), lo_l, ln_l)),
                                 VTuple(z3.SubSeq(get_items(v), lo_t, ln_t)))))
        if kind is None:
            if self.spec_mode:
                raise Unsupported('slice of dynamically typed value in a spec')
            if self.branch(is_str(v)):
                kind, seq = 'str', get_s(v)
            elif self.branch(is_list(v)):
                kind, seq = 'list', get_elems(v)
            else:
                self.safe(is_tuple(v), 'TypeError', 'slice of non-sequence', node)
                kind, seq = 'tuple', get_items(v)
        n = z3.Length(seq)

        def bound(b, default):
            if b is None:
                return default
            x = self.evv(b)
            self.safe(z3.Or(is_int(x), is_none(x)), 'TypeError', 'slice bound', node)
            i = vl.simp(get_i(x))
            # bounds known to lie within the sequence (loop counters) need no wrap-around / clipping
            inside = vl.simp(n).get_id() in self.eng.le_len.get(i.get_id(), ())
            if self.is_nonneg(i):
                r = i if inside else z3.If(i > n, n, i)
            else:
                r = z3.If(i < 0, z3.If(i + n < 0, 0, i + n), z3.If(i > n, n, i))
            if static_kind(x) == 'VInt':
                return r
            return z3.If(is_none(x), default, r)
        lo = bound(sl.lower, z3.IntVal(0))
        hi = bound(sl.upper, n)
        if sl.lower is None and self.is_nonneg(vl.simp(hi)):
            ln = vl.simp(hi)                 # xs[:k] with k >= 0: k elements, no case distinction
        else:
            ln = vl.simp(z3.If(hi > lo, hi - lo, 0))
            if os.environ.get('PYVC_DEBUG_LEN') and sl.lower is None:
                import sys
                print('slice ln ite: hi=', vl.simp(hi).sexpr()[:200], 'n=', vl.simp(n).sexpr()[:100], 'spec', self.spec_mode, file=sys.stderr)
        if kind == 'str':
            return V(VStr(z3.SubString(seq, lo, ln)))
        sub = z3.SubSeq(seq, lo, ln)
        return V(VList(sub) if kind == 'list' else VTuple(sub))

    # -- attributes --------------------------------------------------------------------
    def ev_Attribute(self, e):
        base = self.ev(e.value)
        return self.getattr(base, e.attr, e)

    def getattr(self, base, attr, node):
        if isinstance(base, SObj):
            if attr in base.fields:
                return base.fields[attr]
            if base.cls == 'Opaque' and attr in ('top', 'metadata', 'node', 'triples', 'epidata'):
                # a data attribute of an abstract object: some function of its state
                return V(z3.Function('attr_' + attr, Val, Val)(as_val(base.fields['state'])))
            if base.cls == 'Graph' and attr == 'top':
                return self.call_contract_method('penman.graph', 'Graph.top', base, ([], {}), node)
            return SFunc('bound', obj=base, name=attr)
        if isinstance(base, SModel):
            if attr == 'top_role':
                return V(vl.m_top_role(base.m))
            if attr in ('normalizations', 'reifications', 'dereifications'):
                return SFunc('modeltable', model=base, table=attr)
            if attr == '_role_re':
                return SFunc('modeltable', model=base, table='_role_re')
            return SFunc('bound', obj=base, name=attr)
        if isinstance(base, SModuleRef):
            return self.module_attr(base, attr, node)
        if isinstance(base, SClass):
            return SFunc('classattr', cls=base.name, name=attr)
        if isinstance(base, SOpaque):
            return SFunc('opaque', what=base.what, name=attr)
        if isinstance(base, (SSet, SDict, SGen)):
            return SFunc('bound', obj=base, name=attr)
        if isinstance(base, SFunc) and base.kind in ('modeltable', 'rematch'):
            return SFunc('bound', obj=base, name=attr)
        if isinstance(base, SFunc):
            raise Unsupported('attribute of a function value')
        v = as_val(base)
        # fields of immutable records
        for cname, fields in vl.FIELDS.items():
            if attr in fields and attr not in STR_METHODS:
                return self.obj_field(v, attr, node)
        if attr == 'mode':
            return self.obj_field(v, 'mode', node)
        return SFunc('bound', obj=base, name=attr)

    def obj_field(self, v, attr, node):
        self.safe(is_obj(v), 'AttributeError', '.%s on non-object' % attr, node)
        if attr == 'mode':
            c = get_cls(v)
            return V(VInt(z3.If(c == vl.CLASSES['Alignment'], 2,
                          z3.If(c == vl.CLASSES['RoleAlignment'], 1,
                          z3.If(c == vl.CLASSES['OtherEpidatum'], get_i(get_fields(v)[0]), 0)))))
        owners = [c for c, fs in vl.FIELDS.items() if attr in fs]
        ok = z3.Or(*[get_cls(v) == vl.CLASSES[c] for c in owners])
        self.safe(ok, 'AttributeError', '.%s' % attr, node)
        # the slot of the field depends on the class
        t = get_fields(v)[vl.FIELDS[owners[-1]].index(attr)]
        for c in reversed(owners[:-1]):
            t = z3.If(get_cls(v) == vl.CLASSES[c], get_fields(v)[vl.FIELDS[c].index(attr)], t)
        return V(t)

    def module_attr(self, base, attr, node):
        name = base.name
        if name.startswith('penman'):
            m2 = self.eng.repo.module(name)
            if attr in m2.funcs:
                return SFunc('pyfunc', module=name, qualname=attr)
            if attr in m2.classes:
                return SClass(attr)
            if attr in m2.consts:
                return self.module_const(m2, attr)
        return SFunc('extern', module=name, name=attr)

    # ==========================================================================
    # dict helpers

    def dict_get_item(self, d, k, node):
        if d.default is not None:
            return self.dict_value(d, k, default=True)
        self.safe(z3.Select(d.dom, k), 'KeyError', 'dict key present', node)
        return self.dict_value(d, k)

    def dict_value(self, d, k, default=False):
        raw = z3.Select(d.val, k)
        if d.vkind == 'set':
            if default:
                return SSet(z3.If(z3.Select(d.dom, k), raw, vl.empty_seq()))
            return SSet(raw)
        if default:
            dv = {'list': VList(vl.empty_seq()), 'int': VInt(z3.IntVal(0))}[d.default]
            return V(z3.If(z3.Select(d.dom, k), raw, dv))
        return V(raw)

    def dict_set(self, d, k, value):
        n = d.copy()
        if d.vkind == 'set':
            if not isinstance(value, SSet):
                raise Unsupported('dict of sets: non-set value')
            n.val = z3.Store(d.val, k, value.plain())
        else:
            n.val = z3.Store(d.val, k, as_val(value))
        if d.keys is not None:
            n.keys = z3.If(z3.Select(d.dom, k), d.keys, z3.Concat(d.keys, z3.Unit(k)))
        n.dom = z3.Store(d.dom, k, True)
        return n

    # ==========================================================================
    # calls

    def ev_Call(self, e):
        if any(isinstance(a, ast.Starred) for a in e.args) and not (
                isinstance(e.func, ast.Name) and e.func.id in ('Instance', 'Edge', 'Attribute')):
            raise Unsupported('starred call argument (line %s)' % e.lineno)
        f = self.ev(e.func)
        from . import builtins as B
        return B.call(self, f, e)

    def ev_Lambda(self, e):
        return SFunc('lambda', node=e, env=dict(self.env))

    def ev_ListComp(self, e):
        from . import builtins as B
        return V(VList(B.comprehension(self, e, 'list')))

    def ev_GeneratorExp(self, e):
        from . import builtins as B
        return SGen(B.comprehension(self, e, 'list'))

    def ev_SetComp(self, e):
        from . import builtins as B
        return SSet(B.comprehension(self, e, 'set'))

    def ev_DictComp(self, e):
        raise Unsupported('dict comprehension')

    # -- modular call of a function under contract --------------------------------------
    def call_contract(self, module, qualname, args, node, self_obj=None):
        """assert the callee's precondition, assume its postcondition; the body is never inlined"""
        from . import calls
        return calls.call_contract(self, module, qualname, args, node, self_obj)

    def call_contract_method(self, module, qualname, self_obj, args, node):
        return self.call_contract(module, qualname, args, node, self_obj=self_obj)

    # ==========================================================================
    # spec-mode block merging (pure functions: if/return/assign)

    def merge_block(self, stmts):
        if not stmts:
            raise Unsupported('specification function falls off its end')
        st, rest = stmts[0], stmts[1:]
        if isinstance(st, ast.Return):
            return self.ev(st.value)
        if isinstance(st, ast.Assign):
            val = self.ev(st.value)
            saved = dict(self.env)
            self.bind_target(st.targets[0], val, st)
            r = self.merge_block(rest)
            self.env = saved
            return r
        if isinstance(st, ast.If):
            c = as_bool(self.ev(st.test))
            saved = dict(self.env)
            a = self.merge_block(st.body + rest)
            self.env = dict(saved)
            b = self.merge_block(st.orelse + rest)
            self.env = saved
            return self.ite(c, a, b)
        if isinstance(st, ast.Expr) and isinstance(st.value, ast.Constant):
            return self.merge_block(rest)
        raise Unsupported('statement %s in a specification function' % type(st).__name__)

    # ==========================================================================
    # statements

    def bind_target(self, tgt, val, node):
        if isinstance(tgt, ast.Name):
            self.env[tgt.id] = val
            self.poisoned.discard(tgt.id)
            return
        if isinstance(tgt, (ast.Tuple, ast.List)):
            v = as_val(val)
            n = len(tgt.elts)
            kind, seq = self.seq_parts(v, node)
            if kind is None or kind == 'str':
                tok = z3.And(is_obj(v), get_cls(v) == vl.CLASSES['Token'])   # a NamedTuple unpacks like a tuple
                if self.spec_mode:
                    seq = z3.If(is_tuple(v), get_items(v), z3.If(tok, get_fields(v), get_elems(v)))
                else:
                    self.safe(z3.Or(is_tuple(v), is_list(v), tok), 'TypeError', 'unpack non-sequence', node)
                    seq = z3.If(is_tuple(v), get_items(v), z3.If(tok, get_fields(v), get_elems(v)))
            self.safe(z3.Length(seq) == n, 'ValueError', 'unpack arity %d' % n, node)
            for i, t in enumerate(tgt.elts):
                self.bind_target(t, V(self.nth_of(seq, z3.IntVal(i))), node)
            return
        raise Unsupported('assignment target %s' % type(tgt).__name__)

    def run_block(self, stmts):
        for st in stmts:
            self.run_stmt(st)

    def run_stmt(self, st):
        m = getattr(self, 'st_' + type(st).__name__, None)
        if m is None:
            raise Unsupported('statement %s at line %s' % (type(st).__name__, st.lineno))
        return m(st)

    def st_Pass(self, st):
        pass

    def st_Expr(self, st):
        if isinstance(st.value, ast.Constant):
            return
        if isinstance(st.value, ast.Call):
            f = st.value.func
            # logging has no effect on values (T11)
            if isinstance(f, ast.Attribute) and isinstance(f.value, ast.Name) and f.value.id == 'logger':
                return
        self.ev(st.value)

    def st_Assert(self, st):
        c = as_bool(self.ev(st.test))
        if self.exc_expected('AssertionError'):
            # the contract lists AssertionError among what may escape: the failing case is a raising path
            if not self.branch(c):
                raise PyRaise('AssertionError', node=st)
            return
        self.oblige('assert', c, label='assert@%d' % st.lineno)
        self.assume(c)

    def st_Return(self, st):
        raise ReturnSig(self.ev(st.value) if st.value is not None else V(VNone))

    def st_Raise(self, st):
        if st.exc is None:
            cur = getattr(self, 'current_exc', None)
            if cur is None:
                raise Unsupported('bare raise outside an except block')
            raise PyRaise(cur, node=st)
        exc = st.exc
        from . import builtins as B
        name, payload = B.exception_value(self, exc)
        raise PyRaise(name, payload, node=st)

    def st_Break(self, st):
        raise BreakSig()

    def st_Continue(self, st):
        raise ContinueSig()

    def st_Assign(self, st):
        val = self.ev(st.value)
        for tgt in st.targets:
            self.assign(tgt, val, st)
            from . import mutate
            if isinstance(tgt, (ast.Name, ast.Tuple, ast.List)):
                mutate.record_roots(self, tgt, st.value)
            elif isinstance(tgt, ast.Attribute):
                mutate.note_share(self, tgt, st.value, val, st)

    def st_AnnAssign(self, st):
        if st.value is None:
            return
        val = self.ev(st.value)
        self.assign(st.target, val, st)
        from . import mutate
        if isinstance(st.target, (ast.Name, ast.Tuple, ast.List)):
            mutate.record_roots(self, st.target, st.value)
        elif isinstance(st.target, ast.Attribute):
            mutate.note_share(self, st.target, st.value, val, st)

    def assign(self, tgt, val, st):
        if isinstance(tgt, (ast.Name, ast.Tuple, ast.List)):
            val = self.coerce_local(tgt, val)
            self.bind_target(tgt, val, st)
            return
        from . import mutate
        mutate.assign_target(self, tgt, val, st)

    def coerce_local(self, tgt, val):
        return val

    def st_AugAssign(self, st):
        cur = self.ev(ast.copy_location(_load(st.target), st.target))
        rhs = self.ev(st.value)
        fake = ast.BinOp(left=ast.Constant(value=0), op=st.op, right=ast.Constant(value=0))
        ast.copy_location(fake, st)
        if isinstance(cur, SObj) and cur.cls == 'Graph' and isinstance(st.op, (ast.BitOr, ast.Sub)):
            # g |= other / g -= other on graphs: the in-place method, by its contract
            meth = '__ior__' if isinstance(st.op, ast.BitOr) else '__isub__'
            self.call_contract('penman.graph', 'Graph.' + meth, ([rhs], {}), st, self_obj=cur)
            return
        if isinstance(st.op, ast.Add):
            if isinstance(cur, V) and isinstance(rhs, V):
                res = self.add(cur, rhs, st)
            else:
                raise Unsupported('+= on %s' % type(cur).__name__)
        elif isinstance(st.op, ast.BitOr):
            a, b = as_val(cur), as_val(rhs)
            if static_kind(a) == 'VBool' or static_kind(b) == 'VBool':
                self.safe(z3.And(is_bool(a), is_bool(b)), 'TypeError', '|=', st)
                res = V(VBool(z3.Or(get_b(a), get_b(b))))
            else:
                self.safe(z3.And(is_int(a), is_int(b)), 'TypeError', '|=', st)
                self.safe(z3.And(get_i(a) >= 0, get_i(a) <= 1, get_i(b) >= 0, get_i(b) <= 1), 'Unsupported', '|= on 0/1', st)
                res = V(VInt(z3.If(z3.Or(get_i(a) == 1, get_i(b) == 1), 1, 0)))
        elif isinstance(st.op, ast.BitAnd):
            a, b = as_val(cur), as_val(rhs)
            self.safe(z3.And(is_bool(a), is_bool(b)), 'TypeError', '&=', st)
            res = V(VBool(z3.And(get_b(a), get_b(b))))
        elif isinstance(st.op, ast.Sub):
            a, b = as_val(cur), as_val(rhs)
            self.safe(z3.And(is_int(a), is_int(b)), 'TypeError', '-=', st)
            res = V(VInt(get_i(a) - get_i(b)))
        else:
            raise Unsupported('augmented assignment %s' % type(st.op).__name__)
        self.assign(st.target, res, st)

    def st_Delete(self, st):
        from . import mutate
        for t in st.targets:
            mutate.delete_target(self, t, st)

    def st_If(self, st):
        # `if debug:` blocks that only log are dropped (T11)
        if isinstance(st.test, ast.Name) and st.test.id == 'debug':
            return
        if self.branch(as_bool(self.ev(st.test))):
            self.run_block(st.body)
        else:
            self.run_block(st.orelse)

    def st_FunctionDef(self, st):
        self.env[st.name] = SFunc('closure', node=st, env=self.env)

    def st_With(self, st):
        raise Unsupported('with statement')

    def st_Try(self, st):
        if st.finalbody:
            raise Unsupported('try/finally')
        handled = []
        for h in st.handlers:
            if h.type is None:
                names = ['Exception']
            elif isinstance(h.type, ast.Tuple):
                names = [_exc_name(x) for x in h.type.elts]
            else:
                names = [_exc_name(h.type)]
            handled.append(names)
        saved = self.handlers
        self.handlers = tuple(handled) + tuple(saved)
        try:
            self.run_block(st.body)
        except PyRaise as r:
            self.handlers = saved
            for h, names in zip(st.handlers, handled):
                if any(exc_matches(r.exc, n) for n in names):
                    if h.name:
                        self.env[h.name] = SOpaque('exception')
                    saved_exc = getattr(self, 'current_exc', None)
                    self.current_exc = r.exc
                    try:
                        self.run_block(h.body)
                    finally:
                        self.current_exc = saved_exc
                    return
            raise
        finally:
            self.handlers = saved
        self.run_block(st.orelse)

    # -- loops -------------------------------------------------------------------------
    def st_While(self, st):
        from . import loops
        loops.run_while(self, st)

    def st_For(self, st):
        from . import loops
        loops.run_for(self, st)


def _load(t):
    import copy
    n = copy.deepcopy(t)
    for x in ast.walk(n):
        if hasattr(x, 'ctx'):
            x.ctx = ast.Load()
    return n


def _exc_name(e):
    if isinstance(e, ast.Name):
        return e.id
    if isinstance(e, ast.Attribute):
        return e.attr
    raise Unsupported('exception class expression')


def seq_contains(seq, x):
    return z3.Contains(seq, z3.Unit(x))


STR_METHODS = {'startswith', 'endswith', 'partition', 'rpartition', 'lstrip', 'rstrip', 'strip',
               'split', 'splitlines', 'join', 'format', 'isalpha', 'lower', 'index', 'rindex',
               'replace', 'text', 'type'}
STR_METHODS -= {'text', 'type'}

BUILTIN_NAMES = {'len', 'isinstance', 'str', 'list', 'set', 'dict', 'tuple', 'reversed', 'enumerate',
                 'zip', 'range', 'sorted', 'next', 'iter', 'bool', 'int', 'map', 'getattr', 'hasattr',
                 'cast', 'print', 'min', 'max', 'any', 'all', 'sum', 'repr', 'float', 'type',
                 # specification vocabulary
                 'implies', 'has', 'old', 'at_iteration_start', 'init', 'last', 'dict_eq', 'forall_keys', 'dict_wf', 'forall_idx', 'exists_idx', 'is_str', 'is_int', 'is_none',
                 'is_tuple', 'is_list', 'is_float', 'is_bool', 'is_obj', 'is_inst', 'in_re',
                 'set_of_seq', 'set_add', 'set_union', 'set_where', 'subset', 'dict_has', 'dict_get', 'dict_keys', 'dict_values_str',
                 'mk', 'noop', 'norm_has', 'norm_get', 'reif_has', 'reif_get', 'dereif_has', 'dereif_get',
                 'top_role', 'aln_marker', 'aln_ok', 'str_of', 'json_dumps', 'json_container', 'keyof', 'key_le', 'seq_eq',
                 'is_atomic', 'last_index', 'fld', 'nfields', 'truthy', 'is_sorted_by', 'perm_of', 'multiset_eq'}
