"""Call dispatch: Python built-ins and methods with their *assumed* contracts
(trusted base T2-T6), the specification vocabulary of the sidecar, and
comprehensions (translated to recursive functions defined from the right end,
so one loop step is one unfolding)."""
import ast
import itertools

import z3

from . import values as vl
from .values import (Val, SeqVal, SetVal, VNone, VBool, VInt, VFloat, VStr, VTuple, VList, VObj,
                     is_none, is_bool, is_int, is_float, is_str, is_tuple, is_list, is_obj,
                     get_b, get_i, get_r, get_s, get_items, get_elems, get_cls, get_fields,
                     S, vstr, vint, vbool, seq_of, vtuple, vlist, vobj, truthy)
from .symex import (Unsupported, PyRaise, V, SSet, SDict, SObj, SModel, SFunc, SClass, SModuleRef,
                    SGen, SOpaque, as_val, as_bool, mk_bool, static_kind, fresh, seq_contains,
                    ERROR_CLASSES)

_cnt = itertools.count()


def args_of(ex, e):
    # f(..., **kw): the mapping is passed on as one value under the name '**'
    return [ex.ev(a) for a in e.args], {(k.arg if k.arg is not None else '**'): ex.ev(k.value) for k in e.keywords}


def seq_term(ex, sv, node, what='sequence'):
    """Seq Val of a list/tuple/generator value"""
    if isinstance(sv, SGen):
        return sv.seq
    if isinstance(sv, SDict):
        if sv.keys is None:
            raise Unsupported('iteration over an unordered dict')
        return sv.keys
    v = as_val(sv)
    k = static_kind(v)
    if k == 'VList':
        return v.arg(0)
    if k == 'VTuple':
        return v.arg(0)
    k = ex.known_kind(v) if hasattr(ex, 'known_kind') else None
    if k == 'VList':
        return vl.simp(get_elems(v))
    if k == 'VTuple':
        return vl.simp(get_items(v))
    ex.safe(z3.Or(is_list(v), is_tuple(v)), 'TypeError', what + ' expected', node)
    return z3.If(is_list(v), get_elems(v), get_items(v))


def call(ex, f, e):
    if isinstance(f, SClass):
        return construct(ex, f.name, e)
    if not isinstance(f, SFunc):
        raise Unsupported('call of %s (line %s)' % (type(f).__name__, e.lineno))
    k = f.kind
    if k == 'builtin':
        h = globals().get('bi_' + f.name.replace('.', '_'))
        if h is None:
            raise Unsupported('builtin %s' % f.name)
        return h(ex, e)
    if k == 'spec':
        fn, kinds, retk = ex.eng.spec_funcs[f.name]
        args = [ex.ev(a) for a in e.args]
        if len(args) != len(kinds):
            raise Unsupported('arity of spec function %s' % f.name)
        if f.name in ex.eng.inline_specs:
            from .symex import Exec
            c = ex.eng.sidecar.specs[f.name]
            sub = Exec(ex.eng, None, None, spec_mode=True)
            sub.fname = ex.fname
            sub.env = {}
            ex.eng._cur_ex = ex
            for (pn, kd), a in zip(c.params, args):
                # re-wrap through the declared kind so static type information is kept
                sub.env[pn] = a if kd in ('set', 'dict') else ex.eng.wrap_kind(ex.eng.unwrap_kind(a, kd), kd)
            body = [st for st in c.fn.body if not (isinstance(st, ast.Expr) and isinstance(st.value, ast.Constant))]
            r = sub.merge_block(body)
            return ex.eng.wrap_kind(ex.eng.unwrap_kind(r, retk), retk)
        ex.eng._cur_ex = ex
        zs = [z for a, kd in zip(args, kinds) for z in ex.eng.unwrap_kinds(a, kd)]
        return ex.eng.wrap_kind(fn(*zs), retk)
    if k == 'bound' and isinstance(f.obj, SFunc) and f.obj.kind == 'rematch':
        if f.name == 'group':
            args, _ = args_of(ex, e)
            if not args:
                return V(VStr(f.obj.whole))
            idx = as_val(args[0])
            if not (static_kind(idx) == 'VInt' and z3.is_int_value(idx.arg(0))):
                raise Unsupported('group(computed index)')
            return V(VStr(f.obj.parts[idx.arg(0).as_long() - 1]))
        raise Unsupported('match.%s' % f.name)
    if k == 'bound':
        return call_method(ex, f.obj, f.name, e)
    if k == 'pyfunc':
        args, kw = args_of(ex, e)
        return ex.call_contract(f.module, f.qualname, (args, kw), e)
    if k == 'keyfn':
        args, _ = args_of(ex, e)
        return V(VObj(z3.IntVal(100), z3.Unit(VNone)))  # never inspected; see sorted()
    if k == 'opaque':
        if f.what == 'logger':
            return V(VNone)
        raise Unsupported('call on %s' % f.what)
    if k == 'classattr':
        if f.name == 'from_string' and f.cls in ('Alignment', 'RoleAlignment'):
            args, _ = args_of(ex, e)
            s = as_val(args[0])
            ex.safe(is_str(s), 'TypeError', 'from_string', e)
            ex.safe(vl.aln_ok(get_s(s)), 'SurfaceError', 'alignment text', e)
            return V(vobj(f.cls, [vl.aln_indices(get_s(s)), vl.aln_prefix(get_s(s))]))
        raise Unsupported('class attribute call %s.%s' % (f.cls, f.name))
    if k == 'closure':
        return call_closure(ex, f, e)
    if k == 'lambda':
        args, _ = args_of(ex, e)
        saved = ex.env
        ex.env = dict(f.env)
        for a, v in zip(f.node.args.args, args):
            ex.env[a.arg] = v
        try:
            return ex.ev(f.node.body)
        finally:
            ex.env = saved
    if k == 'extern':
        return call_extern(ex, f, e)
    if k == 'modeltable':
        raise Unsupported('call of a model table')
    raise Unsupported('call kind %s' % k)


def call_closure(ex, f, e):
    raise Unsupported('call of a local function (line %s)' % e.lineno)


def call_extern(ex, f, e):
    mod, name = f.module, f.name
    args, kw = args_of(ex, e)
    if mod == 'json' and name == 'dumps':
        from . import external
        v = as_val(args[0])
        ex.safe(is_str(v), 'Unsupported', 'json.dumps of a str', e)
        raw = False
        for k, x in kw.items():
            if k == 'ensure_ascii' and static_kind(as_val(x)) == 'VBool' and z3.is_false(as_val(x).arg(0)):
                raw = True
            elif k == 'ensure_ascii' and static_kind(as_val(x)) == 'VBool':
                pass
            else:
                raise Unsupported('json.dumps keyword argument %s' % k)
        return V(VStr((external.json_dumps_raw if raw else vl.json_dumps_str)(get_s(v))))
    if mod == 'json' and name == 'loads':
        from . import external
        v = as_val(args[0])
        ex.safe(is_str(v), 'TypeError', 'json.loads of a str', e)
        pc_kw = kw.get('parse_constant')
        if set(kw) - {'parse_constant'} or not (isinstance(pc_kw, SFunc) and pc_kw.kind == 'builtin' and pc_kw.name == 'str'):
            raise Unsupported('json.loads without parse_constant=str (assumed contract T4 covers only that form)')
        s_ = get_s(v)
        for ax in external.loads_axioms(s_):
            ex.assume(ax)
        ex.safe(external.json_ok(s_), 'JSONDecodeError', 'json.loads', e)
        return V(external.json_val(s_))
    if mod == 'copy' and name in ('deepcopy', 'copy'):
        # (the difference between the two is ownership: see mutate.expr_roots)
        return args[0] if isinstance(args[0], V) else deep_copy(ex, args[0])
    if mod == 're' and name == 'match':
        return re_match(ex, args, e)
    raise Unsupported('external call %s.%s' % (mod, name))


def re_match(ex, args, e):
    """re.match(literal pattern, s) for a pattern that is a sequence of capturing groups (T1): the
    match object exposes group(k).  Assumed: ASCII reading of \\d / \\D, and the decomposition into
    the groups is the greedy one, which is unique when -- as checked here -- every group but the
    last ends in a character class disjoint from the first characters of the next group."""
    from . import regex as rx
    pat = as_val(args[0])
    if not (static_kind(pat) == 'VStr' and z3.is_string_value(pat.arg(0))):
        raise Unsupported('re.match with a computed pattern')
    pattern = pat.arg(0).as_string()
    pattern = bytes(pattern, 'utf-8').decode('unicode_escape') if False else pattern
    import re as _re
    pattern_py = _re.sub(r'\\u\{([0-9a-f]+)\}', lambda m: chr(int(m.group(1), 16)), pattern)
    tree = rx.parse(pattern_py)
    items = [(op, av) for op, av in tree]
    anchors_end = bool(items) and items[-1][0] is rx.sre_c.AT
    groups = [av for op, av in items if op is rx.sre_c.SUBPATTERN]
    if len(groups) + (1 if anchors_end else 0) != len(items) or not groups:
        raise Unsupported('re.match pattern shape')
    s = as_val(args[1])
    ex.safe(is_str(s), 'TypeError', 're.match subject', e)
    st = get_s(s)
    parts = [fresh('grp%d' % (j + 1), vl.String) for j in range(len(groups))]
    regs = [rx.translate(g[3]) for g in groups]
    # `$` also matches before one trailing newline
    tail = fresh('tail', vl.String)
    whole = z3.Concat(*(parts + [tail])) if anchors_end else None
    matched = fresh('matched', vl.Bool)
    conj = [z3.InRe(p, r) for p, r in zip(parts, regs)]
    if anchors_end:
        conj.append(st == whole)
        conj.append(z3.Or(tail == S(''), tail == S('\n')))
        full = z3.Concat(*(regs + [z3.Option(rx.ch('\n'))]))
        ex.assume(matched == z3.InRe(st, full))
    else:
        raise Unsupported('re.match without an end anchor')
    # greedy = longest first groups; unique here because group k ends in a class disjoint from the
    # first characters of group k+1 (asserted as an obligation on the pattern itself)
    for j in range(len(groups) - 1):
        last_cls = last_class(groups[j][3])
        first_next, _ = rx.first_chars(groups[j + 1][3])
        x = fresh('x', vl.String)
        if last_cls is None:
            raise Unsupported('re.match group shape')
        ex.oblige('regex', z3.Not(z3.And(z3.InRe(x, last_cls), z3.InRe(x, first_next))),
                  label='re.match.groups-unambiguous@%s' % getattr(e, 'lineno', '?'))
        # the next group must not be extendable to the left: the part before it ends in last_cls
        conj.append(z3.InRe(parts[j], z3.Concat(z3.Full(z3.ReSort(vl.String)), last_cls)))
        # and the following groups cover everything after it (maximal trailing run)
    ex.assume(z3.Implies(matched, z3.And(*conj)))
    return SFunc('rematch', matched=matched, parts=parts, whole=st)


def last_class(parsed):
    from . import regex as rx
    items = [(op, av) for op, av in parsed if op is not rx.sre_c.AT]
    if not items:
        return None
    op, av = items[-1]
    if op is rx.sre_c.IN:
        return rx.class_items(av)
    if op is rx.sre_c.LITERAL:
        return rx.ch(av)
    if op is rx.sre_c.NOT_LITERAL:
        return z3.Diff(z3.AllChar(rx.RE), rx.ch(av))
    return None


def deep_copy(ex, sv):
    if isinstance(sv, SObj):
        return SObj(sv.cls, {k: deep_copy(ex, v) for k, v in sv.fields.items()})
    if isinstance(sv, SDict):
        return sv.copy()
    if isinstance(sv, SSet):
        return SSet(sv.inc, sv.exc, sv.pred)
    return sv


# ---------------------------------------------------------------------------
# constructors

def construct(ex, name, e):
    if name in ('Instance', 'Edge', 'Attribute', 'Triple'):
        if len(e.args) == 1 and isinstance(e.args[0], ast.Starred):
            # C(*t) for a NamedTuple class C and a 3-tuple t is t itself as a value (a NamedTuple is
            # a tuple); that t is a 3-tuple is a safety obligation outside comprehensions (T10 inside)
            v = ex.evv(e.args[0].value)
            ex.safe(z3.And(is_tuple(v), z3.Length(get_items(v)) == 3), 'TypeError', 'triple arity', e)
            return V(v)
        args, _ = args_of(ex, e)
        return V(vtuple([as_val(a) for a in args]))
    if name == 'Push':
        args, _ = args_of(ex, e)
        return V(vobj('Push', [as_val(args[0])]))
    if name == 'Pop':
        return V(vobj('Pop', []))
    if name in ('Alignment', 'RoleAlignment'):
        args, kw = args_of(ex, e)
        idx = as_val(args[0])
        pre = as_val(kw['prefix']) if 'prefix' in kw else (as_val(args[1]) if len(args) > 1 else VNone)
        return V(vobj(name, [idx, pre]))
    if name == 'Token':
        args, _ = args_of(ex, e)
        return V(vobj('Token', [as_val(a) for a in args]))
    if name == 'Graph':
        args, kw = args_of(ex, e)
        obj = ex.eng.make_param('new_graph', 'Graph', ex.assume, ex)
        ex.call_contract('penman.graph', 'Graph.__init__', (args, kw), e, self_obj=obj)
        return obj
    if name == 'Tree':
        args, kw = args_of(ex, e)
        md = kw.get('metadata') or (args[1] if len(args) > 1 else None)
        if md is None:
            md = SDict(vl.empty_set(), z3.K(Val, VNone), vl.empty_seq())
        return SObj('Tree', {'node': args[0], 'metadata': md})
    if name == 'PENMANCodec':
        args, kw = args_of(ex, e)
        obj = ex.eng.make_param('new_codec', 'Codec', ex.assume, ex)
        ex.call_contract('penman.codec', 'PENMANCodec.__init__', (args, kw), e, self_obj=obj)
        return obj
    if name == 'Model':
        if e.args or e.keywords:
            raise Unsupported('Model(...) with arguments')
        return SModel(z3.Const('default_model', vl.ModelS))
    if name == 'DecodeError':
        args, kw = args_of(ex, e)
        def g(k, i):
            return as_val(kw[k]) if k in kw else (as_val(args[i]) if len(args) > i else VNone)
        return V(vobj('DecodeError', [g('message', 0), g('lineno', 2), g('offset', 3), g('text', 4)]))
    if name in ERROR_CLASSES:
        raise Unsupported('exception object used as a value')
    raise Unsupported('constructor %s' % name)


def exception_value(ex, exc):
    """(class name, payload) of the expression after `raise`"""
    if isinstance(exc, ast.Name):
        return exc.id, None
    if isinstance(exc, ast.Call):
        if isinstance(exc.func, ast.Name) and exc.func.id in ERROR_CLASSES:
            if exc.func.id == 'DecodeError':
                kw = {k.arg: ex.ev(k.value) for k in exc.keywords}
                return 'DecodeError', kw
            return exc.func.id, None
        # raise tokens.error(...) / raise self.error(...): the decode error, positioned by the token
        # given (or by the last token returned when the input has run out)
        v = ex.ev(exc)
        if isinstance(v, V):
            # an exception object built by a function under contract (TokenIterator.error)
            return 'DecodeError', {'value': v}
        if isinstance(v, SFunc) and v.kind == 'errorobj':
            return v.exc, v.payload
        raise Unsupported('raise of a computed exception')
    raise Unsupported('raise expression')


# ---------------------------------------------------------------------------
# built-in functions

def bi_len(ex, e):
    a = ex.ev(e.args[0])
    if isinstance(a, SDict):
        if a.keys is None:
            raise Unsupported('len of unordered dict')
        return V(VInt(z3.Length(a.keys)))
    v = as_val(a)
    k = static_kind(v)
    if k == 'VStr':
        return V(VInt(z3.Length(v.arg(0))))
    if k in ('VList', 'VTuple'):
        return V(VInt(z3.Length(v.arg(0))))
    ex.safe(z3.Or(is_str(v), is_list(v), is_tuple(v)), 'TypeError', 'len', e)
    return V(VInt(z3.If(is_str(v), z3.Length(get_s(v)),
                        z3.If(is_list(v), z3.Length(get_elems(v)), z3.Length(get_items(v))))))


def class_test(ex, v, cls_e):
    if isinstance(cls_e, ast.Tuple):
        return z3.Or(*[class_test(ex, v, c) for c in cls_e.elts])
    if isinstance(cls_e, ast.Name):
        n = cls_e.id
        if n == 'str':
            return is_str(v)
        if n == 'int':
            return z3.Or(is_int(v), is_bool(v))
        if n == 'float':
            return is_float(v)
        if n == 'bool':
            return is_bool(v)
        if n == 'list':
            return is_list(v)
        if n == 'tuple':
            return is_tuple(v)
        if n in vl.SUBCLASSES:
            return vl.isinstance_cls(v, n)
        val = ex.env.get(n)
        if isinstance(val, SClass) and val.name in vl.SUBCLASSES:
            return vl.isinstance_cls(v, val.name)
        if val is not None:
            # a class passed as a value: which one is not modelled (sound: either answer possible)
            return fresh('isinstance_' + n, vl.Bool)
    raise Unsupported('isinstance class %s' % ast.unparse(cls_e))


def bi_isinstance(ex, e):
    a = ex.ev(e.args[0])
    if isinstance(a, SObj):
        if isinstance(e.args[1], ast.Name):
            return mk_bool(z3.BoolVal(a.cls == e.args[1].id))
        raise Unsupported('isinstance on object')
    if isinstance(a, SModel):
        return mk_bool(z3.BoolVal(isinstance(e.args[1], ast.Name) and e.args[1].id == 'Model'))
    if isinstance(a, (SSet, SDict)):
        raise Unsupported('isinstance on container')
    return mk_bool(class_test(ex, as_val(a), e.args[1]))


def bi_str(ex, e):
    v = ex.evv(e.args[0])
    return V(VStr(ex.str_of(v)))


def bi_repr(ex, e):
    v = ex.evv(e.args[0])
    return V(VStr(ex.repr_of(v)))


def bi_bool(ex, e):
    return mk_bool(as_bool(ex.ev(e.args[0])))


def bi_int(ex, e):
    v = ex.evv(e.args[0])
    if static_kind(v) == 'VInt':
        return V(v)
    ex.safe(is_str(v), 'TypeError', 'int()', e)
    s = get_s(v)
    ok = z3.InRe(s, z3.Plus(z3.Range('0', '9')))    # T2: int(s) on ASCII digit strings
    ex.safe(ok, 'ValueError', 'int() of a digit string', e)
    return V(VInt(z3.StrToInt(s)))


def bi_list(ex, e):
    if not e.args:
        return V(VList(vl.empty_seq()))
    a = ex.ev(e.args[0])
    return V(VList(seq_term(ex, a, e)))


def bi_tuple(ex, e):
    if not e.args:
        return V(VTuple(vl.empty_seq()))
    a = ex.ev(e.args[0])
    return V(VTuple(seq_term(ex, a, e)))


def set_of_seq_term(seq):
    return seq


def bi_set(ex, e):
    if not e.args:
        return SSet(vl.empty_seq())
    if isinstance(e.args[0], ast.GeneratorExp) and len(e.args[0].generators) == 2:
        return nested_set_comp(ex, e.args[0])
    a = ex.ev(e.args[0])
    if isinstance(a, SSet):
        return SSet(a.inc, a.exc, a.pred)
    if isinstance(a, SDict):
        if a.keys is None:
            raise Unsupported('set() of an unordered dict')
        return SSet(a.keys)
    return SSet(seq_term(ex, a, e))


def bi_dict(ex, e):
    if not e.args:
        return SDict(vl.empty_set(), z3.K(Val, VNone), vl.empty_seq())
    a = ex.ev(e.args[0])
    if isinstance(a, SDict):
        return a.copy()
    if isinstance(a, SGen):
        # dict((k, v) for ...) : keys in order, later pairs win
        raise Unsupported('dict() of a generator')
    raise Unsupported('dict(%s)' % type(a).__name__)


def bi_reversed(ex, e):
    seq = seq_term(ex, ex.ev(e.args[0]), e)
    f = z3.RecFunction('seq_rev', SeqVal, SeqVal)
    return SGen(seq_rev(seq))


_seq_rev = None


def seq_rev(seq):
    global _seq_rev
    if _seq_rev is None:
        _seq_rev = z3.RecFunction('seq_reverse', SeqVal, SeqVal)
        q = z3.Const('q', SeqVal)
        n = z3.Length(q)
        z3.RecAddDefinition(_seq_rev, [q], z3.If(n == 0, z3.Empty(SeqVal),
                                                 z3.Concat(z3.Unit(q[n - 1]), _seq_rev(z3.SubSeq(q, 0, n - 1)))))
    return _seq_rev(seq)


def bi_iter(ex, e):
    return SGen(seq_term(ex, ex.ev(e.args[0]), e))


def bi_next(ex, e):
    g = ex.ev(e.args[0])
    if isinstance(g, SObj) and g.cls == 'Iter':
        # a stateful iterator over a sequence: next() takes its first element or raises StopIteration
        seq = get_elems(as_val(g.fields['seq']))
        if len(e.args) > 1:
            raise Unsupported('next(iterator, default) on a stateful iterator')
        ex.safe(z3.Length(seq) > 0, 'StopIteration', 'next()', e)
        from . import mutate
        mutate.in_place(ex, e.args[0], e)
        g.fields['seq'] = V(VList(z3.SubSeq(seq, 1, z3.Length(seq) - 1)))
        return V(seq[0])
    if not isinstance(g, SGen):
        raise Unsupported('next() on %s' % type(g).__name__)
    seq = g.seq
    if len(e.args) > 1:
        d = ex.evv(e.args[1])
        return V(z3.If(z3.Length(seq) > 0, seq[0], d))
    ex.safe(z3.Length(seq) > 0, 'StopIteration', 'next()', e)
    return V(seq[0])


def bi_cast(ex, e):
    return ex.ev(e.args[1])


bi_typing_cast = bi_cast


def bi_getattr(ex, e):
    raise Unsupported('getattr')


def bi_hasattr(ex, e):
    raise Unsupported('hasattr')


def bi_print(ex, e):
    raise Unsupported('print')


def bi_enumerate(ex, e):
    raise Unsupported('enumerate outside a for statement')


def bi_zip(ex, e):
    raise Unsupported('zip outside a for statement')


def bi_range(ex, e):
    raise Unsupported('range outside a for statement')


def bi_map(ex, e):
    f = ex.ev(e.args[0])
    if isinstance(f, SFunc) and f.kind == 'builtin' and f.name == 'str' and len(e.args) == 2:
        seq = seq_term(ex, ex.ev(e.args[1]), e)
        g = z3.Function('map_str', SeqVal, SeqVal)    # [str(x) for x in seq]
        r = g(seq)
        if not ex.spec_mode:
            i = fresh('i', vl.Int)
            ex.assume(z3.Length(r) == z3.Length(seq))
            ex.assume(z3.ForAll([i], z3.Implies(z3.And(i >= 0, i < z3.Length(seq)), is_str(r[i]))))
        return SGen(r)
    raise Unsupported('map()')


_sorted_cnt = itertools.count()


def bi_sorted(ex, e):
    """T3: sorted() returns a permutation of its argument that is ordered by
    the key and stable for equal keys.  Keys are abstract (KeyS with an
    uninterpreted total preorder); the result is a fresh sequence constrained
    by an uninterpreted function of (sequence, key), so equal inputs give
    equal outputs."""
    from .symex import SFunc as _SF
    a = ex.ev(e.args[0])
    kw = {k.arg: ex.ev(k.value) for k in e.keywords}
    if isinstance(a, SSet):
        # sorted(set): a sequence with the same members whose order is a function of the
        # *members* only -- modelled by a fresh sequence with the same membership
        r = fresh('sorted_set', SeqVal)
        k = fresh('k', Val)
        ex.assume(z3.ForAll([k], z3.Contains(r, z3.Unit(k)) == a.mem(k)))
        return V(VList(r))
    seq = seq_term(ex, a, e)
    keyf = kw.get('key')
    kid = keyf_id(ex, keyf)
    f = z3.Function('sorted_by_%s' % kid, SeqVal, SeqVal)
    r = f(seq)
    ex.assume(z3.Length(r) == z3.Length(seq))
    ex.ghost_sorted = getattr(ex, 'ghost_sorted', []) + [(seq, r, kid)]
    return V(VList(r))


def keyf_id(ex, keyf):
    if keyf is None:
        return 'natural'
    if isinstance(keyf, SFunc) and keyf.kind == 'keyfn':
        return 'key'
    if isinstance(keyf, SFunc) and keyf.kind == 'closure':
        return 'closure_' + keyf.node.name
    if isinstance(keyf, SFunc) and keyf.kind == 'bound':
        return 'method_' + keyf.name
    return 'fn'


def _bool_gen(ex, e, negate):
    """any(E for x in xs if C) / all(...): the comprehension of the elements that decide it"""
    g = e.args[0]
    if not isinstance(g, (ast.GeneratorExp, ast.ListComp)) or len(g.generators) != 1:
        raise Unsupported('any()/all() of a non-comprehension')
    gen = g.generators[0]
    test = ast.UnaryOp(op=ast.Not(), operand=g.elt) if negate else g.elt
    probe = ast.ListComp(elt=ast.Constant(value=None),
                         generators=[ast.comprehension(target=gen.target, iter=gen.iter,
                                                       ifs=list(gen.ifs) + [test], is_async=0)])
    ast.copy_location(probe, e)
    ast.fix_missing_locations(probe)
    return comprehension(ex, probe, 'list')


def bi_any(ex, e):
    a = ex.ev(e.args[0]) if not isinstance(e.args[0], (ast.GeneratorExp, ast.ListComp)) else None
    if isinstance(a, SDict):
        # any(d): some key is truthy
        if a.keys is None:
            raise Unsupported('any() of an unordered dict')
        i = fresh('i', vl.Int)
        return mk_bool(z3.Exists([i], z3.And(i >= 0, i < z3.Length(a.keys), truthy(a.keys[i]))))
    if a is not None:
        seq = seq_term(ex, a, e)
        i = fresh('i', vl.Int)
        return mk_bool(z3.Exists([i], z3.And(i >= 0, i < z3.Length(seq), truthy(seq[i]))))
    return mk_bool(z3.Length(_bool_gen(ex, e, False)) > 0)


def bi_all(ex, e):
    return mk_bool(z3.Length(_bool_gen(ex, e, True)) == 0)


def bi_min(ex, e):
    args, _ = args_of(ex, e)
    a, b = as_val(args[0]), as_val(args[1])
    ex.safe(z3.And(is_int(a), is_int(b)), 'TypeError', 'min', e)
    return V(VInt(z3.If(get_i(a) <= get_i(b), get_i(a), get_i(b))))


def bi_type(ex, e):
    raise Unsupported('type()')


# ---------------------------------------------------------------------------
# specification vocabulary (usable in contracts, specs and lemmas)

def bi_implies(ex, e):
    a = as_bool(ex.ev(e.args[0]))
    if ex.spec_mode:
        return mk_bool(z3.Implies(a, as_bool(ex.ev(e.args[1]))))
    return mk_bool(z3.Implies(a, as_bool(ex.ev(e.args[1]))))


def _model_arg(ex, node):
    m = ex.ev(node)
    if not isinstance(m, SModel):
        raise Unsupported('expected a model')
    return m.m


def bi_has(ex, e):
    s = ex.evv(e.args[1])
    return mk_bool(vl.m_has(_model_arg(ex, e.args[0]), get_s(s)))


def bi_noop(ex, e):
    return mk_bool(vl.m_noop(_model_arg(ex, e.args[0])))


def bi_norm_has(ex, e):
    return mk_bool(vl.m_norm_has(_model_arg(ex, e.args[0]), get_s(ex.evv(e.args[1]))))


def bi_norm_get(ex, e):
    return V(VStr(vl.m_norm(_model_arg(ex, e.args[0]), get_s(ex.evv(e.args[1])))))


def bi_reif_has(ex, e):
    return mk_bool(vl.m_reif_has(_model_arg(ex, e.args[0]), ex.evv(e.args[1])))


def bi_reif_get(ex, e):
    return V(vl.m_reif(_model_arg(ex, e.args[0]), ex.evv(e.args[1])))


def bi_dereif_has(ex, e):
    return mk_bool(vl.m_dereif_has(_model_arg(ex, e.args[0]), ex.evv(e.args[1])))


def bi_dereif_get(ex, e):
    return V(vl.m_dereif(_model_arg(ex, e.args[0]), ex.evv(e.args[1])))


def bi_top_role(ex, e):
    return V(vl.m_top_role(_model_arg(ex, e.args[0])))


def bi_old(ex, e):
    saved = ex.env
    ex.env = ex.old_env
    try:
        return ex.ev(e.args[0])
    finally:
        ex.env = saved


def bi_at_iteration_start(ex, e):
    """at_iteration_start(k, expr): expr evaluated with the locals as they were when the current
    iteration of loop k began (proof hints only)"""
    k = e.args[0].value
    envs = getattr(ex, 'iter_envs', {})
    if k not in envs:
        raise Unsupported('at_iteration_start(%r, ...) outside loop %r' % (k, k))
    saved = ex.env
    ex.env = envs[k]
    try:
        return ex.ev(e.args[1])
    finally:
        ex.env = saved


def _tester(fn):
    def h(ex, e):
        return mk_bool(fn(ex.evv(e.args[0])))
    return h


bi_is_str = _tester(is_str)
bi_is_int = _tester(is_int)
bi_is_none = _tester(is_none)
bi_is_tuple = _tester(is_tuple)
bi_is_list = _tester(is_list)
bi_is_float = _tester(is_float)
bi_is_bool = _tester(is_bool)
bi_is_obj = _tester(is_obj)
bi_is_atomic = _tester(vl.is_atomic)


def bi_is_inst(ex, e):
    return mk_bool(vl.isinstance_cls(ex.evv(e.args[0]), e.args[1].value))


def bi_mk(ex, e):
    """mk('Push', v): a marker object in a specification"""
    return V(vobj(e.args[0].value, [ex.evv(a) for a in e.args[1:]]))


def bi_fld(ex, e):
    """fld(obj, 'variable')"""
    v = ex.evv(e.args[0])
    attr = e.args[1].value
    owners = [c for c, fs in vl.FIELDS.items() if attr in fs]
    return V(get_fields(v)[vl.FIELDS[owners[0]].index(attr)])


def bi_nfields(ex, e):
    """number of fields of a record object (a Token has five)"""
    return V(VInt(z3.Length(get_fields(ex.evv(e.args[0])))))


def bi_truthy(ex, e):
    return mk_bool(as_bool(ex.ev(e.args[0])))


def bi_aln_marker(ex, e):
    """aln_marker('Alignment', text) = Alignment.from_string(text)"""
    s = get_s(ex.evv(e.args[1]))
    return V(vobj(e.args[0].value, [vl.aln_indices(s), vl.aln_prefix(s)]))


def bi_aln_ok(ex, e):
    return mk_bool(vl.aln_ok(get_s(ex.evv(e.args[0]))))


def bi_str_of(ex, e):
    return V(VStr(ex.str_of(ex.evv(e.args[0]))))


def bi_json_dumps(ex, e):
    return V(VStr(vl.json_dumps_str(get_s(ex.evv(e.args[0])))))


def bi_json_container(ex, e):
    """json.loads accepts the text and yields a list or a dict"""
    from . import external
    s_ = get_s(ex.evv(e.args[0]))
    v = external.json_val(s_)
    return mk_bool(z3.And(external.json_ok(s_), z3.Or(is_list(v), is_obj(v)),
                          z3.Not(z3.Or(s_ == S('true'), s_ == S('false'), s_ == S('null')))))


def bi_in_re(ex, e):
    from . import regex
    s = get_s(ex.evv(e.args[0]))
    return mk_bool(z3.InRe(s, regex.from_python(e.args[1].value)))


def _concat_parts(seq):
    """the parts of a concatenation, flattened: [(term, is_unit_element)]"""
    if z3.is_app(seq) and seq.decl().kind() == z3.Z3_OP_SEQ_CONCAT:
        out = []
        for c in seq.children():
            out.extend(_concat_parts(c))
        return out
    return [seq]


def _quantify_idx(ex, e, universal):
    """forall_idx / exists_idx over a sequence; a concatenation is quantified part by part (the
    statement about A + [x] is the statement about A and the one about x), which is what the
    solvers do not find by themselves"""
    arg0 = ex.ev(e.args[0])
    lam = e.args[1]
    names = [a.arg for a in lam.args.args]
    if isinstance(arg0, V) and (static_kind(arg0.t) == 'VStr' or
                                (hasattr(ex, 'known_kind') and ex.known_kind(arg0.t) == 'VStr')):
        # over the characters of a string (one-character strings)
        sstr = vl.simp(get_s(arg0.t))
        i = fresh('i', vl.Int)
        ex.eng.nonneg.add(i.get_id())
        ex.eng._nonneg_keep.append(i)
        src, bound = sstr, z3.Length(sstr)
        if z3.is_app(sstr) and sstr.decl().kind() == z3.Z3_OP_SEQ_EXTRACT and z3.is_int_value(sstr.arg(1)) \
                and sstr.arg(1).as_long() == 0:
            # a prefix S[:k] with 0 <= k <= len(S) known: its characters are those of S, and there are k
            k = vl.simp(sstr.arg(2))
            if ex.is_nonneg(k) and vl.simp(z3.Length(sstr.arg(0))).get_id() in ex.eng.le_len.get(k.get_id(), ()):
                src, bound = sstr.arg(0), k
        saved = dict(ex.env)
        ex.env[names[0]] = V(VInt(i))
        if len(names) > 1:
            ex.env[names[1]] = V(VStr(z3.SubString(src, i, 1)))
        sm = ex.spec_mode
        ex.spec_mode = True
        try:
            body = as_bool(ex.ev(lam.body))
        finally:
            ex.spec_mode = sm
            ex.env = saved
        guard = z3.And(i >= 0, i < bound)
        return mk_bool(z3.ForAll([i], z3.Implies(guard, body)) if universal else z3.Exists([i], z3.And(guard, body)))
    seq = vl.simp(seq_term(ex, arg0, e))

    def body_at(idx, elem):
        idx = vl.simp(idx)
        ex.eng.nonneg.add(idx.get_id())
        ex.eng._nonneg_keep.append(idx)
        saved = dict(ex.env)
        ex.env[names[0]] = V(VInt(idx))
        if len(names) > 1:
            ex.env[names[1]] = V(elem)
        sm = ex.spec_mode
        ex.spec_mode = True
        try:
            return as_bool(ex.ev(lam.body))
        finally:
            ex.spec_mode = sm
            ex.env = saved

    def length_of(p):
        # the prefix S[:k] with 0 <= k <= len(S) known has exactly k elements
        if z3.is_app(p) and p.decl().kind() == z3.Z3_OP_SEQ_EXTRACT and z3.is_int_value(p.arg(1)) \
                and p.arg(1).as_long() == 0:
            k = vl.simp(p.arg(2))
            if ex.is_nonneg(k) and vl.simp(z3.Length(p.arg(0))).get_id() in ex.eng.le_len.get(k.get_id(), ()):
                return k
        return z3.Length(p)

    parts = _concat_parts(seq)
    if len(parts) == 1:
        i = fresh('i', vl.Int)
        elem = seq[i]
        if z3.is_app(seq) and seq.decl().kind() == z3.Z3_OP_SEQ_EXTRACT:
            elem = seq.arg(0)[seq.arg(1) + i]
        body = body_at(i, elem)
        if universal:
            return mk_bool(z3.ForAll([i], z3.Implies(z3.And(i >= 0, i < length_of(seq)), body)))
        return mk_bool(z3.Exists([i], z3.And(i >= 0, i < length_of(seq), body)))
    out = []
    off = z3.IntVal(0)
    for p in parts:
        if z3.is_app(p) and p.decl().kind() == z3.Z3_OP_SEQ_UNIT:
            out.append(body_at(off, p.arg(0)))
            off = off + 1
        elif z3.is_app(p) and p.decl().kind() == z3.Z3_OP_SEQ_EMPTY:
            continue
        else:
            i = fresh('i', vl.Int)
            elem = p[i]
            if z3.is_app(p) and p.decl().kind() == z3.Z3_OP_SEQ_EXTRACT:
                # element i of the slice S[a:a+k] is S[a+i] (0 <= i < its length): stated over S itself, so
                # that a fact quantified over S applies by instantiation
                elem = p.arg(0)[p.arg(1) + i]
            body = body_at(off + i, elem)
            if universal:
                out.append(z3.ForAll([i], z3.Implies(z3.And(i >= 0, i < length_of(p)), body)))
            else:
                out.append(z3.Exists([i], z3.And(i >= 0, i < length_of(p), body)))
            off = off + length_of(p)
    if not out:
        return mk_bool(z3.BoolVal(universal))
    return mk_bool(z3.And(*out) if universal else z3.Or(*out))


def bi_forall_idx(ex, e):
    """forall_idx(seq, lambda i, x: P) -- universally quantified over indices"""
    return _quantify_idx(ex, e, True)


def bi_exists_idx(ex, e):
    return _quantify_idx(ex, e, False)


def bi_set_of_seq(ex, e):
    return SSet(set_of_seq_term(seq_term(ex, ex.ev(e.args[0]), e)))


def bi_set_add(ex, e):
    s = ex.ev(e.args[0])
    return s.added(ex.evv(e.args[1]))


def bi_set_union(ex, e):
    a, b = ex.ev(e.args[0]), ex.ev(e.args[1])
    return a.union(b)


def bi_set_where(ex, e):
    """set_where(lambda x: P): the set given by a membership predicate (specifications)"""
    lam = e.args[0]
    name = lam.args.args[0].arg
    env0 = dict(ex.env)
    ghost0 = dict(ex.ghost)

    def pred(k):
        from .symex import Exec
        sub = Exec(ex.eng, ex.module, None, spec_mode=True)
        sub.fname = ex.fname
        sub.env = dict(env0)
        sub.ghost = dict(ghost0)
        sub.old_env = getattr(ex, 'old_env', {})
        sub.env[name] = V(k)
        return as_bool(sub.ev(lam.body))
    return SSet(pred=pred)


def bi_subset(ex, e):
    a, b = ex.ev(e.args[0]), ex.ev(e.args[1])
    k = fresh('k', Val)
    return mk_bool(z3.ForAll([k], z3.Implies(a.mem(k), b.mem(k))))


def _dict_arg(ex, e):
    """the dict a vocabulary function is applied to; None (an optional dict that is absent) reads as
    the empty dict, so that `implies(d is not None, ...)` can be stated"""
    d = ex.ev(e.args[0])
    if isinstance(d, V):
        return SDict(vl.empty_set(), z3.K(Val, VNone), vl.empty_seq())
    return d


def bi_dict_has(ex, e):
    d = _dict_arg(ex, e)
    return mk_bool(z3.Select(d.dom, ex.evv(e.args[1])))


def bi_dict_get(ex, e):
    d = _dict_arg(ex, e)
    k = ex.evv(e.args[1])
    if len(e.args) > 2:
        dv = ex.evv(e.args[2])
        return V(z3.If(z3.Select(d.dom, k), z3.Select(d.val, k), dv))
    return V(z3.Select(d.val, k))


def bi_dict_values_str(ex, e):
    """every value of the dict is a string"""
    d = ex.ev(e.args[0])
    k = fresh('k', Val)
    return mk_bool(z3.ForAll([k], z3.Implies(z3.Select(d.dom, k), is_str(z3.Select(d.val, k)))))


def bi_dict_wf(ex, e):
    """dict_wf(d): the key order lists exactly the keys (true of every Python dict; the encoder keeps the
    domain and the key order as separate terms, so proofs that need the connection state it)"""
    d = _dict_arg(ex, e)
    if d.keys is None:
        return mk_bool(z3.BoolVal(True))
    k = fresh('k', Val)
    return mk_bool(z3.ForAll([k], z3.Select(d.dom, k) == z3.Contains(d.keys, z3.Unit(k))))


def bi_forall_keys(ex, e):
    """forall_keys(d, lambda k: P): P holds of every key of the dict"""
    d = _dict_arg(ex, e)
    lam = e.args[1]
    k = fresh('k', Val)
    saved = dict(ex.env)
    ex.env[lam.args.args[0].arg] = V(k)
    sm = ex.spec_mode
    ex.spec_mode = True
    try:
        body = as_bool(ex.ev(lam.body))
    finally:
        ex.spec_mode = sm
        ex.env = saved
    return mk_bool(z3.ForAll([k], z3.Implies(z3.Select(d.dom, k), body)))


def bi_dict_eq(ex, e):
    """dict_eq(a, b): same keys (same order) with the same values"""
    a = _dict_arg(ex, e)
    b = ex.ev(e.args[1])
    if isinstance(b, V):
        b = SDict(vl.empty_set(), z3.K(Val, VNone), vl.empty_seq())
    k = fresh('k', Val)
    body = z3.And(z3.Select(a.dom, k) == z3.Select(b.dom, k),
                  z3.Implies(z3.Select(a.dom, k), z3.Select(a.val, k) == z3.Select(b.val, k)))
    conj = [z3.ForAll([k], body)]
    if a.keys is not None and b.keys is not None:
        conj.append(a.keys == b.keys)
    return mk_bool(z3.And(*conj))


def bi_dict_keys(ex, e):
    d = _dict_arg(ex, e)
    if d.keys is None:
        raise Unsupported('keys of an unordered dict')
    return V(VList(d.keys))


def _seq_like(ex, e):
    v = ex.evv(e.args[0])
    kind, seq = ex.seq_parts(v, e)
    if kind is None:
        kind, seq = 'dyn', z3.If(is_tuple(v), get_items(v), get_elems(v))
    return v, kind, seq


def bi_init(ex, e):
    """init(xs): xs without its last element (xs[:-1] for a non-empty xs, stated without the case
    distinctions of Python's slice normalisation)"""
    v, kind, seq = _seq_like(ex, e)
    if kind == 'str':
        return V(VStr(z3.SubString(seq, 0, z3.Length(seq) - 1)))
    sub = z3.SubSeq(seq, 0, z3.Length(seq) - 1)
    if kind == 'dyn':
        return V(z3.If(is_tuple(v), VTuple(sub), VList(sub)))
    return V(VTuple(sub) if kind == 'tuple' else VList(sub))


def bi_last(ex, e):
    """last(xs): the last element (xs[-1] for a non-empty xs)"""
    v, kind, seq = _seq_like(ex, e)
    if kind == 'str':
        return V(VStr(z3.SubString(seq, z3.Length(seq) - 1, 1)))
    return V(seq[z3.Length(seq) - 1])


def bi_seq_eq(ex, e):
    a = seq_term(ex, ex.ev(e.args[0]), e)
    b = seq_term(ex, ex.ev(e.args[1]), e)
    return mk_bool(a == b)


def bi_last_index(ex, e):
    """last_index(s, sub): str.rindex for a single-character needle (spec side)"""
    s = get_s(ex.evv(e.args[0]))
    sub = get_s(ex.evv(e.args[1]))
    return V(VInt(z3.LastIndexOf(s, sub)))


# ---------------------------------------------------------------------------
# methods

def call_method(ex, obj, name, e):
    if isinstance(obj, SFunc) and obj.kind == 'modeltable':
        args, kw = args_of(ex, e)
        if name == 'get':
            return ex.model_table_get(obj, as_val(args[0]), e, default=args[1] if len(args) > 1 else V(VNone))
        raise Unsupported('model table method %s' % name)
    if isinstance(obj, SModel):
        return model_method(ex, obj, name, e)
    if isinstance(obj, SObj):
        return object_method(ex, obj, name, e)
    if isinstance(obj, SSet):
        return set_method(ex, obj, name, e)
    if isinstance(obj, SDict):
        return dict_method(ex, obj, name, e)
    if isinstance(obj, SGen):
        raise Unsupported('method %s on a generator' % name)
    v = as_val(obj)
    k = static_kind(v)
    if k == 'VStr' or (k is None and name in STR_ONLY):
        if k != 'VStr':
            ex.safe(is_str(v), 'AttributeError', '.%s on non-str' % name, e)
        return str_method(ex, get_s(v) if k != 'VStr' else v.arg(0), name, e)
    if k == 'VList' or (k is None and name in LIST_ONLY):
        from . import mutate
        return mutate.list_method(ex, e.func.value, v, name, e)
    if k == 'VTuple' and name in ('index', 'count'):
        raise Unsupported('tuple.%s' % name)
    raise Unsupported('method %s on a dynamically typed value (line %s)' % (name, e.lineno))


STR_ONLY = {'startswith', 'endswith', 'partition', 'rpartition', 'lstrip', 'rstrip', 'strip', 'split',
            'splitlines', 'join', 'format', 'isalpha', 'lower', 'rindex', 'replace'}
LIST_ONLY = {'append', 'extend', 'insert', 'pop', 'sort', 'clear', 'reverse'}

BLANKS_STRIP = ' \t\n\r\x0b\x0c\x1c\x1d\x1e\x1f\x85\xa0'   # str.strip() default also removes Unicode spaces


def str_method(ex, s, name, e):
    args, kw = args_of(ex, e)

    def sarg(i):
        v = as_val(args[i])
        ex.safe(is_str(v), 'TypeError', 'str.%s argument' % name, e)
        return get_s(v)
    if name == 'startswith':
        a = as_val(args[0])
        if static_kind(a) == 'VTuple':
            raise Unsupported('startswith(tuple)')
        return mk_bool(z3.PrefixOf(sarg(0), s))
    if name == 'endswith':
        return mk_bool(z3.SuffixOf(sarg(0), s))
    if name == 'partition':
        sep = sarg(0)
        i = z3.IndexOf(s, sep, 0)
        found = i >= 0
        return V(z3.If(found,
                       vtuple([VStr(z3.SubString(s, 0, i)), VStr(sep),
                               VStr(z3.SubString(s, i + z3.Length(sep), z3.Length(s) - i - z3.Length(sep)))]),
                       vtuple([VStr(s), vstr(''), vstr('')])))
    if name == 'rpartition':
        sep = sarg(0)
        i = z3.LastIndexOf(s, sep)
        found = i >= 0
        return V(z3.If(found,
                       vtuple([VStr(z3.SubString(s, 0, i)), VStr(sep),
                               VStr(z3.SubString(s, i + z3.Length(sep), z3.Length(s) - i - z3.Length(sep)))]),
                       vtuple([vstr(''), vstr(''), VStr(s)])))
    if name == 'rindex':
        sub = sarg(0)
        i = z3.LastIndexOf(s, sub)
        ex.safe(i >= 0, 'ValueError', 'rindex', e)
        return V(VInt(i))
    if name == 'lstrip' and args:
        chars = as_val(args[0])
        if static_kind(chars) == 'VStr' and z3.is_string_value(chars.arg(0)) and len(chars.arg(0).as_string()) == 1:
            ch = chars.arg(0)
            # T2: s == lead ++ result, lead consists of the character only, the result does not start with it
            f = z3.Function('str_lstrip1', vl.String, vl.String, vl.String)
            r = f(s, ch)
            if not ex.spec_mode:
                p = fresh('lead', vl.String)
                ex.assume(s == z3.Concat(p, r))
                ex.assume(z3.InRe(p, z3.Star(z3.Re(ch))))
                ex.assume(z3.Not(z3.PrefixOf(ch, r)))
            return V(VStr(r))
        raise Unsupported('lstrip with a non-literal character set')
    if name in ('rstrip', 'strip', 'lstrip') and (not args or name == 'rstrip'):
        # T2: whitespace-only (or, with an argument, given-characters-only) suffix/prefix removed; the
        # result has none of them at that end
        from . import regex
        if args:
            chars = as_val(args[0])
            if not (static_kind(chars) == 'VStr' and z3.is_string_value(chars.arg(0)) and chars.arg(0).as_string()):
                raise Unsupported('rstrip with a non-literal character set')
            lit = chars.arg(0).as_string()
            import re as _re
            lit = _re.sub(r'\\u\{([0-9a-fA-F]+)\}', lambda m: chr(int(m.group(1), 16)), lit)
            ws = regex.char_class(lit)
        else:
            ws = regex.char_class(BLANKS_STRIP)
        r = fresh(name + 'ped', vl.String)
        if name == 'rstrip':
            t = fresh('trail', vl.String)
            ex.assume(s == z3.Concat(r, t))
            ex.assume(z3.InRe(t, z3.Star(ws)))
            ex.assume(z3.Not(z3.InRe(r, z3.Concat(z3.Full(z3.ReSort(vl.String)), ws))))
            return V(VStr(r))
        raise Unsupported('str.%s()' % name)
    if name == 'replace' and len(args) == 2:
        a, b = sarg(0), sarg(1)
        ex.safe(z3.Length(a) > 0, 'Unsupported', 'replace of a non-empty needle', e)
        return V(VStr(z3.SeqRef(z3.Z3_mk_seq_replace_all(s.ctx.ref(), s.as_ast(), a.as_ast(), b.as_ast()), s.ctx)))
    if name == 'replace' and len(args) == 3:
        # replace(old, new, 1): the first occurrence only -- SMT-LIB str.replace
        a, b = sarg(0), sarg(1)
        cnt = as_val(args[2])
        if not (static_kind(cnt) == 'VInt' and z3.is_int_value(cnt.arg(0)) and cnt.arg(0).as_long() == 1):
            raise Unsupported('str.replace with a count other than 1')
        ex.safe(z3.Length(a) > 0, 'Unsupported', 'replace of a non-empty needle', e)
        return V(VStr(z3.Replace(s, a, b)))
    if name == 'lower':
        return V(VStr(z3.Function('str_lower', vl.String, vl.String)(s)))
    if name == 'isalpha':
        return mk_bool(z3.Function('str_isalpha', vl.String, vl.Bool)(s))
    if name == 'join':
        seq = seq_term(ex, args[0], e)
        return V(VStr(str_join(s, seq)))
    if name == 'format':
        if not z3.is_string_value(s):
            raise Unsupported('str.format on a computed template')
        tmpl = s.as_string()
        pieces = tmpl.split('{}')
        if '{' in ''.join(pieces) or len(pieces) - 1 != len(args) or kw:
            raise Unsupported('str.format template %r' % tmpl)
        out = [S(pieces[0])]
        for a, p in zip(args, pieces[1:]):
            out.append(ex.str_of(as_val(a)))
            out.append(S(p))
        return V(VStr(z3.Concat(*out) if len(out) > 1 else out[0]))
    if name == 'split' and len(args) == 1:
        raise Unsupported('str.split')
    if not hasattr(str, name):
        # not a str method at all: the receiver must not be a str here (AttributeError otherwise)
        ex.safe(z3.BoolVal(False), 'AttributeError', 'str has no attribute %s' % name, e)
        raise Unsupported('unreachable')
    raise Unsupported('str.%s' % name)


_join = None


def str_join(sep, seq):
    """sep.join(seq) for a sequence of VStr, defined from the right end"""
    global _join
    if _join is None:
        _join = z3.RecFunction('str_join', vl.String, SeqVal, vl.String)
        p = z3.Const('sep', vl.String)
        q = z3.Const('q', SeqVal)
        n = z3.Length(q)
        z3.RecAddDefinition(_join, [p, q], z3.If(n == 0, S(''),
                            z3.If(n == 1, get_s(q[0]),
                                  z3.Concat(_join(p, z3.SubSeq(q, 0, n - 1)), p, get_s(q[n - 1])))))
    return _join(sep, seq)


def set_method(ex, s, name, e):
    from . import mutate
    return mutate.set_method(ex, e.func.value, s, name, e)


def dict_method(ex, d, name, e):
    from . import mutate
    return mutate.dict_method(ex, e.func.value, d, name, e)


def model_method(ex, m, name, e):
    args, kw = args_of(ex, e)
    if name in ('_has_role',):
        s = as_val(args[0])
        ex.safe(is_str(s), 'TypeError', '_has_role of a str', e)
        return mk_bool(vl.m_has(m.m, get_s(s)))
    qual = 'Model.' + name
    return ex.call_contract('penman.model', qual, (args, kw), e, self_obj=m)


def object_method(ex, obj, name, e):
    args, kw = args_of(ex, e)
    if obj.cls == 'Graph':
        return ex.call_contract('penman.graph', 'Graph.' + name, (args, kw), e, self_obj=obj)
    if obj.cls == 'Tree':
        return ex.call_contract('penman.tree', 'Tree.' + name, (args, kw), e, self_obj=obj)
    if obj.cls == 'TokenIterator':
        return ex.call_contract('penman._lexer', 'TokenIterator.' + name, (args, kw), e, self_obj=obj)
    if obj.cls == 'Opaque':
        return ex.call_contract('penman.tree', 'Tree.' + name, (args, kw), e, self_obj=obj)
    if obj.cls == 'PENMANCodec':
        return ex.call_contract('penman.codec', 'PENMANCodec.' + name, (args, kw), e, self_obj=obj)
    raise Unsupported('method %s.%s' % (obj.cls, name))


# ---------------------------------------------------------------------------
# comprehensions

def comprehension(ex, e, kind):
    """[E for x in xs if C] -> application of a fresh recursive function
    comp(xs, captured...) defined from the right end (list), or a set built by
    Store (set).  Element and filter expressions are evaluated with total
    semantics (no safety obligations inside comprehensions; see DESIGN 2.1)."""
    from .symex import Exec
    if len(e.generators) != 1:
        if kind == 'set' and len(e.generators) == 2:
            return nested_set_comp(ex, e)
        raise Unsupported('comprehension with %d generators' % len(e.generators))
    gen = e.generators[0]
    if gen.is_async:
        raise Unsupported('async comprehension')
    it = ex.ev(gen.iter)
    if isinstance(it, SSet):
        if kind != 'set' and not isinstance(e, ast.SetComp):
            raise Unsupported('list comprehension over a set (order)')
        raise Unsupported('comprehension over a set')
    dview = None
    if isinstance(it, SFunc) and it.kind == 'dictview':
        if it.d.keys is None:
            raise Unsupported('comprehension over an unordered dict')
        dview = it
        seq = it.d.keys
        if it.view == 'keys':
            dview = None
    else:
        seq = seq_term(ex, it, e)
    elt = e.elt
    # identity map  [C(*t) for t in xs] / [t for t in xs]  is xs itself
    if not gen.ifs and isinstance(gen.target, ast.Name) and dview is None:
        inner = elt
        if isinstance(inner, ast.Call) and isinstance(inner.func, ast.Name) and inner.func.id in ('Instance', 'Edge', 'Attribute', 'Triple') \
                and len(inner.args) == 1 and isinstance(inner.args[0], ast.Starred):
            inner = inner.args[0].value
        if isinstance(inner, ast.Name) and inner.id == gen.target.id:
            return seq
    # the same comprehension (element, target, filters, captured values) over the same sequence is the
    # same term wherever it is written (body, postcondition): its defining function is shared
    ckey = None
    try:
        tnames = {n.id for n in ast.walk(gen.target) if isinstance(n, ast.Name)}
        used = {n.id for x in [elt] + list(gen.ifs) for n in ast.walk(x) if isinstance(n, ast.Name)} - tnames
        cap = []
        for nm in sorted(used):
            if nm in ex.env:
                fl = flatten(ex.env[nm])
                if any(z is None for z in fl):
                    raise Unsupported('captured value without a term')
                cap.append((nm, tuple(z.get_id() for z in fl)))
        ckey = (ast.dump(elt), ast.dump(gen.target), tuple(ast.dump(c) for c in gen.ifs), tuple(cap),
                None if dview is None else (dview.view, dview.d.val.get_id()))
    except Unsupported:
        ckey = None
    cache = ex.eng.__dict__.setdefault('comp_cache', {})
    if ckey is not None and ckey in cache:
        res = cache[ckey][0](seq)
        _filter_fact(ex, e, gen, elt, res)
        return res
    idx = next(_cnt)
    f = z3.RecFunction('comp%d_%s' % (idx, ex.fname.replace('.', '_').replace(':', '_')), SeqVal, SeqVal)
    if ckey is not None:
        cache[ckey] = (f, [v for v in ex.env.values()])     # (the captured values are kept alive)
    q = z3.Const('cq%d' % idx, SeqVal)
    pconsts = []
    flat = []
    sub = Exec(ex.eng, ex.module, None, spec_mode=True)
    sub.no_assume = True
    sub.fname = ex.fname
    # captured values are constants of the current path; the definition may mention them
    sub.env = dict(ex.env)
    sub.ghost = dict(ex.ghost)
    sub.old_env = getattr(ex, 'old_env', {})
    n = z3.Length(q)
    last = q[n - 1]
    if dview is None:
        sub.bind_target(gen.target, V(last), e)
    elif dview.view == 'values':
        sub.bind_target(gen.target, sub.dict_value(dview.d, last), e)
    else:
        sub.bind_target(gen.target, V(vl.vtuple([last, as_val(sub.dict_value(dview.d, last))])), e)
    cond = z3.And(*[as_bool(sub.ev(c)) for c in gen.ifs]) if gen.ifs else z3.BoolVal(True)
    el = as_val(sub.ev(elt))
    init = f(z3.SubSeq(q, 0, n - 1), *pconsts)
    body = z3.If(n == 0, z3.Empty(SeqVal), z3.If(cond, z3.Concat(init, z3.Unit(el)), init))
    z3.RecAddDefinition(f, [q] + pconsts, body)
    res = f(seq, *flat)
    _filter_fact(ex, e, gen, elt, res)
    return res


def _filter_fact(ex, e, gen, elt, res):
    """a filter keeps elements: every element of [x for x in xs if C] satisfies C (a property of the
    comprehension that needs induction to derive, given as a fact where the comprehension is evaluated)"""
    from .symex import Exec
    if not (gen.ifs and isinstance(gen.target, ast.Name) and isinstance(elt, ast.Name) and elt.id == gen.target.id):
        return
    if getattr(ex, 'no_assume', False) or ex.spec_mode:
        return
    ii = fresh('ci', vl.Int)
    sub2 = Exec(ex.eng, ex.module, None, spec_mode=True)
    sub2.no_assume = True
    sub2.fname = ex.fname
    sub2.env = dict(ex.env)
    sub2.ghost = dict(ex.ghost)
    sub2.old_env = getattr(ex, 'old_env', {})
    sub2.bind_target(gen.target, V(res[ii]), e)
    c_at = z3.And(*[as_bool(sub2.ev(c)) for c in gen.ifs])
    ex.assume(z3.ForAll([ii], z3.Implies(z3.And(ii >= 0, ii < z3.Length(res)), c_at)))


def nested_set_comp(ex, e):
    """{E for x in xs for y in ys(x) [if C]} as a set given by its membership predicate:
    k is a member iff  exists i, j. 0 <= i < len xs, 0 <= j < len ys(xs[i]), C, k == E"""
    from .symex import Exec
    g1, g2 = e.generators
    if g1.is_async or g2.is_async:
        raise Unsupported('async comprehension')
    outer = vl.simp(seq_term(ex, ex.ev(g1.iter), e))
    i, j = fresh('ci', vl.Int), fresh('cj', vl.Int)
    sub = Exec(ex.eng, ex.module, None, spec_mode=True)
    sub.no_assume = True
    sub.fname = ex.fname
    sub.env = dict(ex.env)
    sub.ghost = dict(ex.ghost)
    sub.old_env = getattr(ex, 'old_env', {})
    sub.pc = list(ex.pc)            # (kinds decided on this path are known inside, nothing is added)
    sub.bind_target(g1.target, V(outer[i]), e)
    c1 = z3.And(*[as_bool(sub.ev(c)) for c in g1.ifs]) if g1.ifs else z3.BoolVal(True)
    inner = vl.simp(seq_term(sub, sub.ev(g2.iter), e))
    parts = _concat_parts(inner)
    if all(z3.is_app(p) and p.decl().kind() == z3.Z3_OP_SEQ_UNIT for p in parts):
        # an inner sequence of statically known length (t[::2] is (t[0], t[2])): one disjunct per element
        alts = []
        for p in parts:
            sub.bind_target(g2.target, V(p.arg(0)), e)
            c2 = z3.And(*[as_bool(sub.ev(c)) for c in g2.ifs]) if g2.ifs else z3.BoolVal(True)
            alts.append((c2, as_val(sub.ev(e.elt))))

        def pred(k):
            return z3.Exists([i], z3.And(0 <= i, i < z3.Length(outer), c1,
                                         z3.Or(*[z3.And(c2, k == el) for c2, el in alts])))
        return SSet(pred=pred)
    sub.bind_target(g2.target, V(inner[j]), e)
    c2 = z3.And(*[as_bool(sub.ev(c)) for c in g2.ifs]) if g2.ifs else z3.BoolVal(True)
    el = as_val(sub.ev(e.elt))
    guard = z3.And(0 <= i, i < z3.Length(outer), 0 <= j, j < z3.Length(inner), c1, c2)

    def pred(k):
        return z3.Exists([i, j], z3.And(guard, k == el))
    return SSet(pred=pred)


def flatten(sv):
    if isinstance(sv, V):
        return [sv.t]
    if isinstance(sv, SSet):
        return [sv.inc] + ([sv.exc] if sv.exc is not None else [])
    if isinstance(sv, SModel):
        return [sv.m]
    if isinstance(sv, SDict):
        return [sv.dom, sv.val]
    if isinstance(sv, (SFunc, SClass, SModuleRef, SOpaque)):
        return []
    if isinstance(sv, SObj):
        out = []
        for k in sorted(sv.fields):
            out.extend(flatten(sv.fields[k]))
        return out
    raise Unsupported('captured %s in a comprehension' % type(sv).__name__)


def unflatten(sv, consts):
    if isinstance(sv, V):
        return V(consts[0])
    if isinstance(sv, SSet):
        return SSet(consts[0], consts[1] if sv.exc is not None else None)
    if isinstance(sv, SModel):
        return SModel(consts[0])
    if isinstance(sv, SDict):
        return SDict(consts[0], consts[1], None, sv.vkind, sv.default)
    if isinstance(sv, (SFunc, SClass, SModuleRef, SOpaque)):
        return sv
    if isinstance(sv, SObj):
        fields = {}
        j = 0
        for k in sorted(sv.fields):
            n = len(flatten(sv.fields[k]))
            fields[k] = unflatten(sv.fields[k], consts[j:j + n])
            j += n
        return SObj(sv.cls, fields)
    raise Unsupported('captured value')
