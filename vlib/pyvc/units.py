"""Which contract units (functions under contract, lemmas, regex facts) carry
each property.  A unit may serve several properties; its obligations are
generated once per check run."""

UNITS = {
    'C02': {
        'functions': ['penman.layout:_process_role', 'penman.layout:_process_atomic', 'penman.layout:_preconfigure',
                      'penman.layout:get_pushed_variable', 'penman.surface:AlignmentMarker.from_string',
                      'penman.tree:_nodes', 'penman.tree:Tree.nodes', 'penman.layout:interpret',
                      # the public entry points: every stage gets the model and options the caller selected
                      'penman.codec:PENMANCodec.__init__', 'penman.codec:PENMANCodec.decode',
                      'penman.codec:PENMANCodec.encode', 'penman.codec:PENMANCodec.format',
                      'penman.codec:PENMANCodec.parse', 'penman.codec:_decode', 'penman.codec:_encode'],
        'lemmas': ['pops_add_no_entries', 'entry_adds_its_triple'],
        'level': 'other',
        'explanation': 'Proved (stages as opaque functions): decode is parse then interpret with the selected model, '
                       'encode is configure from the requested top with the selected model then format with the '
                       'caller\'s options (PENMANCodec.*, _decode, _encode).  Proved: how a role / an atom and its alignment suffix are split when a tree is read '
                       '(_process_role, _process_atomic), and that the data configure() works from holds every triple '
                       'once, in order, unchanged or inverted once, with the non-layout markers kept on it '
                       '(_preconfigure).  That encode(decode(s)) reproduces the tree (the in-place tree builder behind '
                       'configure) is decided by the bounded stand-in.',
    },
    'C06': {
        'functions': ['penman.layout:_preconfigure', 'penman.layout:get_pushed_variable'],
        'lemmas': ['pops_add_no_entries', 'entry_adds_its_triple'],
        'level': 'other',
        'explanation': 'Proved: whatever layout markers a graph carries -- naming unknown variables, repeated, or placed '
                       'on instance triples -- _preconfigure hands configure() every triple exactly once, in order, as it '
                       'is or inverted once (never an instance triple), and nothing but POPs besides; it never raises.  '
                       'That configure() then writes exactly this content, and LayoutError iff disconnected, is decided '
                       'by the bounded stand-in.',
    },
    'C09': {
        'functions': ['penman._lexer:TokenIterator.__bool__', 'penman._lexer:TokenIterator.peek',
                      'penman._lexer:TokenIterator.next', 'penman._format:format'],
        'regex': ['linebreak', 'lexer'],
        'lemmas': [],
        'level': 'other',
        'explanation': 'Proved: str input is split with a pattern whose language is exactly {CRLF, CR, LF} with CRLF tried '
                       'first, and lex() uses it (regex obligations on the live module constant); the token iterator '
                       'iterparse is driven by; lexer facts (a comment runs to the end of its line, blanks are only '
                       'separators).  That every container gives the same graphs and that dump/dumps/load/loads '
                       'round-trip with their metadata is decided by the bounded stand-in.',
    },
    'C20': {
        'functions': ['penman.__main__:_process_in', 'penman.__main__:_process_out', 'penman.__main__:_check',
                      'penman.__main__:_make_sort_key'],
        'lemmas': [],
        'level': 'other',
        'explanation': 'Proved (library stages as opaque functions of their arguments): _process_in applies canonicalise, '
                       'interpret, reify edges, dereify edges, reify attributes, indicate branches in exactly this '
                       'order, each only when its option is set and every model-dependent stage with the selected '
                       'model; _process_out reconfigures with the selected model (else configures with it), then '
                       'rearranges, then relabels.  That the tool writes one block per input graph, option decoding, '
                       'byte idempotence and the plain-run clause are decided by the bounded stand-in (subprocess runs).',
    },
    'C16': {
        'functions': ['penman.__main__:_check', 'penman.model:Model.has_role', 'penman.model:Model.errors@functional'],
        'lemmas': [],
        'level': 'other',
        'explanation': 'Proved: _check returns a non-zero status exactly when the model\'s error report for the graph is '
                       'non-empty (also when the only errors are about the graph as a whole), records an error-N '
                       'entry for every offending context, and leaves triples and top alone; has_role accepts a role '
                       'the model defines directly or as a single inversion.  Bounded: the report itself (Model.errors '
                       'against the report the property describes, contract executed natively).  The content of the report (reachability) '
                       'and the accumulation over graphs and files in process/main are decided by the bounded stand-in '
                       '(subprocess runs of python -m penman --check).',
    },
    'C07': {
        'functions': ['penman._lexer:TokenIterator.__bool__', 'penman._lexer:TokenIterator.error',
                      'penman._lexer:TokenIterator.peek', 'penman._lexer:TokenIterator.next',
                      'penman._lexer:TokenIterator.expect', 'penman._lexer:TokenIterator.accept',
                      'penman._parse:_parse', 'penman._parse:_parse_comments', 'penman._parse:_parse_node',
                      'penman._parse:_parse_edge', 'penman._parse:_parse_triple'],
        'thorough_functions': ['penman._parse:_parse_triples'],
        'regex': ['lexer', 'linebreak'],
        'lemmas': [],
        'level': 'other',
        'explanation': 'Proved for every token sequence: the recursive-descent parser (_parse, _parse_comments, '
                       '_parse_node, _parse_edge, _parse_triple; _parse_triples in the thorough tier) lets nothing but '
                       'the decode error escape (no IndexError, AttributeError, StopIteration at the end of input), '
                       'always consumes tokens (a node at least two, a branch at least one) and never invents any, '
                       'and returns values of the documented shape (node = (variable or None, branches), branch = '
                       '(role, None | text | node), metadata text to text).  '
                       'Proved against the abstract view (remaining tokens, last token): every token request '
                       '(peek/next/expect/accept) returns the head of the remaining tokens and advances by one, converts '
                       'exhaustion into the decode error, and the error carries the line and column of the offending '
                       'token or, when the input runs out, the end of the last token returned; accept never raises.  '
                       'Lexer facts as for C08.  Acceptance of exactly the documented language by _parse_node/_parse_edge '
                       '(and the resulting trees) is decided by the bounded stand-in against the recogniser G.',
    },
    'C19': {
        'functions': ['penman._format:format_triples', 'penman._lexer:TokenIterator.expect',
                      'penman._lexer:TokenIterator.accept', 'penman._lexer:TokenIterator.next',
                      'penman._lexer:TokenIterator.peek', 'penman._lexer:TokenIterator.__bool__',
                      'penman._parse:_parse_triple'],
        'thorough_functions': ['penman._parse:_parse_triples'],
        'regex': ['lexer'],
        'lemmas': [],
        'level': 'other',
        'explanation': 'Proved: the conjunction parser (_parse_triple; _parse_triples in the thorough tier) lets nothing '
                       'but the decode error escape and returns (source, role with its colon, target or None) triples '
                       'of text; format_triples writes one role(source, target) conjunct per triple, in order, colon '
                       'stripped, joined by " ^" and a newline or blank (induction over the triple list); the token '
                       'iterator the conjunction parser is built on; TRIPLE_RE facts (":" "/" "~" are unexpected there, '
                       'STRING is a class of its own).  The round trip through _parse_triples and the spacing variants '
                       'are decided by the bounded stand-in.',
    },
    'C03': {
        'functions': ['penman._format:_format_edge', 'penman.model:Model.invert_role', 'penman.model:Model.invert',
                      'penman.model:Model.deinvert', 'penman.model:Model.is_role_inverted',
                      'penman.graph:Graph.__init__', 'penman.graph:Graph.variables', 'penman.graph:Graph.top',
                      'penman.layout:_preconfigure',
                      # the decode side: which variables a tree defines, and the graph it is read as
                      'penman.tree:_nodes', 'penman.tree:Tree.nodes', 'penman.layout:interpret',
                      # the public entry points: every stage gets the model and options the caller selected
                      'penman.codec:PENMANCodec.__init__', 'penman.codec:PENMANCodec.decode',
                      'penman.codec:PENMANCodec.encode', 'penman.codec:PENMANCodec.format',
                      'penman.codec:PENMANCodec.parse', 'penman.codec:_decode', 'penman.codec:_encode'],
        'lemmas': ['pops_add_no_entries', 'entry_adds_its_triple'],
        'level': 'other',
        'explanation': 'Proved (stages as opaque functions): decode is parse then interpret with the selected model, '
                       'encode is configure from the requested top with the selected model then format with the '
                       'caller\'s options (PENMANCodec.*, _decode, _encode).  Proved: the configuration data holds every triple of the graph exactly once, in order, as it is or '
                       'inverted once, whatever the markers say (_preconfigure); '
                       'the formatter writes every atomic target it is given (0 and 0.0 included; only None and '
                       'the empty string count as missing); inversion/deinversion of triples for every model; graph '
                       'construction, variables and top.  That configure places every triple exactly once from any top '
                       '(the in-place tree builder) is decided by the bounded stand-in.',
    },
    'C01': {
        'functions': ['penman._format:_format_edge', 'penman._format:format', 'penman.tree:_nodes',
                      'penman.tree:Tree.nodes', 'penman._lexer:TokenIterator.expect',
                      'penman._lexer:TokenIterator.peek', 'penman._lexer:TokenIterator.next'],
        'regex': ['lexer', 'linebreak'],
        'lemmas': [],
        'level': 'other',
        'explanation': 'Proved: lexer facts (delimiters never inside SYMBOL/ROLE, STRING atomic and prefix-free, class '
                       'assignment), _format_edge (role, one blank, target), the token iterator.  The round trip '
                       'parse(format(t, options)) == t, whitespace-only differences and the fixed point are decided by '
                       'the bounded stand-in.',
    },
    'C05': {
        'functions': ['penman.model:Model.original_order', 'penman.model:Model.alphanumeric_order',
                      'penman.model:Model.canonical_order', 'penman.model:Model.is_role_inverted',
                      'penman.__main__:_make_sort_key'],
        'lemmas': [],
        'level': 'other',
        'explanation': 'Proved for every model: the role sort keys -- original_order is constant (a stable sort keeps '
                       'the order), alphanumeric_order splits a role into its name and the numeric value of its '
                       'maximal trailing digit run (:op10 after :op2), canonical_order puts inverted roles (as the '
                       'model decides them) last and is alphanumeric within each group.  That rearrange/reconfigure '
                       'keep the graph content, each node\'s branches and concept position, and sort stably by the '
                       'key is decided by the bounded stand-in (in-place sorting of nested branch lists is outside '
                       'the engine\'s ownership model).',
    },
    'C17': {
        'functions': ['penman.transform:reify_edges', 'penman.transform:dereify_edges',
                      'penman.transform:_dereify_agenda', 'penman.transform:reify_attributes',
                      'penman.transform:indicate_branches', 'penman.layout:node_contexts',
                      'penman.layout:appears_inverted', 'penman.layout:get_pushed_variable',
                      'penman.surface:alignments', 'penman.surface:role_alignments',
                      'penman.surface:_get_alignments',
                      'penman.graph:Graph.variables', 'penman.graph:Graph.instances', 'penman.graph:Graph.edges',
                      'penman.graph:Graph.attributes', 'penman.graph:Graph._filter_triples', 'penman.graph:Graph.top',
                      'penman.transform:_reified_markers', 'penman.transform:_edge_markers',
                      'penman.transform:_attr_markers', 'penman.model:Model.reify', 'penman.model:Model.dereify',
                      'penman.tree:_map_vars',
                      'penman.model:Model.__init__',
                      'penman.model:Model.original_order', 'penman.model:Model.alphanumeric_order',
                      'penman.model:Model.canonical_order', 'penman.model:Model.is_role_inverted',
                      'penman.graph:Graph.__or__', 'penman.graph:Graph.__sub__'],
        'lemmas': [],
        'level': 'other',
        'explanation': 'Proved (functional contracts): for the sort keys, the role predicates, the graph queries and '
                       'the non-in-place set operators the result is a stated function of the arguments; the generator '
                       'refuses (undecided) any read of state that is not reachable from a parameter, so such a proof '
                       'is also a proof that the result depends on nothing else.  '
                       'Proved (ownership obligations over the real AST): none of the listed functions mutates an '
                       'object reachable from its arguments -- every in-place update (append/extend/insert/pop/sort/'
                       'add/update/del/item and attribute stores) hits an object created inside the call.  Loops are '
                       'cut by the trivial invariant for this purpose, so the verdict covers every iteration.  '
                       'Determinism across hash seeds and processes is decided by the bounded stand-in.',
    },
    'C10': {
        'functions': ['penman.tree:is_atomic', 'penman.tree:_map_vars', 'penman.tree:_nodes', 'penman.tree:Tree.nodes',
                      'penman.tree:Tree.reset_variables', 'penman.tree:_default_variable_prefix',
                      'penman.layout:_interpret_node', 'penman.layout:interpret'],
        'lemmas': [],
        'level': 'other',
        'explanation': 'Proved: _map_vars rewrites a tree exactly as the relabelling spec says (same shape, roles, '
                       'concepts and constants; node variables replaced by their image; references replaced with '
                       'their alignment suffix kept; quoted strings untouched) for every tree and every map; '
                       'interpreting a tree yields the documented reading for every variable spelling '
                       '(_interpret_node, interpret: the side of the isomorphism clause that reads a tree).  '
                       'That reset_variables builds a bijective first-fit map, and the isomorphism of the '
                       'readings, are decided by the bounded stand-in.',
    },
    'C08': {
        'functions': [],
        'regex': ['lexer', 'linebreak'],
        'lemmas': [],
        'level': 'other',
        'explanation': 'Proved as single-variable regular-expression obligations over the live patterns (both '
                       'PENMAN_RE and TRIPLE_RE): no alternative matches empty or starts with a blank; every '
                       'non-blank character starts some match (coverage of the union); the ordered alternation '
                       'chooses exactly the class the documented grammar assigns; token languages equal the '
                       'documented productions (STRING outside N9); STRING is prefix-free; every quantifier is '
                       'deterministic.  That finditer/_lex report the matches with the right line, column and '
                       'text (T1 and the _lex loop) is decided by the bounded stand-in.',
    },
    'C04': {
        'functions': ['penman.layout:_process_role', 'penman.layout:_process_atomic',
                      'penman.model:Model.is_role_inverted', 'penman.model:Model.invert',
                      'penman.model:Model.deinvert', 'penman.models.noop:NoOpModel.deinvert',
                      'penman.layout:_interpret_node', 'penman.layout:interpret',
                      'penman.tree:_nodes', 'penman.tree:Tree.nodes'],
        # the parser hands the interpreter a tree of the shape its precondition asks for (thorough tier;
        # the same functions are verified in the quick tier under C07)
        'thorough_functions': ['penman._parse:_parse'],
        'lemmas': ['deinvert_laws', 'read_edges_step', 'read_edges_snoc', 'prefix_snoc', 'with_pop_is'],
        'level': 'other',
        'explanation': 'Proved, for every tree of the stated shape, every variable set and every model: '
                       '_interpret_node returns exactly the documented Reading (contracts/c_layout.py: read_node / '
                       'node_triples -- one instance triple per node, null concept listed first when none is written, '
                       'then one triple per branch depth-first; an inverted role on a variable target is deinverted '
                       'once, on a constant it is left as written, never under the no-op model; role and target '
                       'alignments, Push on the branch that opens a node, POP on the last triple of the nested node); '
                       'the string-aware split of alignment suffixes (_process_role, _process_atomic) and the model '
                       'side of deinversion.  interpret() (the graph built from that reading: triples with their colon, '
                       'top, marker table where the first occurrence of a duplicated triple wins) has its contract '
                       'stated and executed natively, not proved; that and the agreement of the Reading spec with the '
                       'documentation on strings are decided by the bounded stand-in.',
    },
    'C18': {
        'functions': ['penman.constant:quote', 'penman.constant:evaluate', 'penman.constant:type'],
        'regex': ['lexer', 'json'],
        'lemmas': [],
        'level': 'other',
        'explanation': 'Proved modulo the assumed contract of json (T4): quote(None) is the empty string constant and '
                       'quote(x) quotes str(x); evaluate is total up to ConstantError, returns None only for empty/None, '
                       'int/float only for JSON number syntax, never a bool or container; regex obligations: the output '
                       'language of json.dumps is inside the STRING token language, contains no blank but the space, and '
                       'STRING is prefix-free, so the lexer reads a quoted constant as exactly one STRING token.  '
                       'evaluate(quote(s)) == s (the json round trip) and type() are decided by the bounded stand-in.',
    },
    'C14': {
        'functions': ['penman.layout:get_pushed_variable', 'penman.layout:interpret',
                      'penman.layout:node_contexts', 'penman.layout:appears_inverted',
                      'penman.layout:node_contexts@functional', 'penman.layout:appears_inverted@functional',
                      'penman.graph:Graph.variables', 'penman.graph:Graph.top'],
        'lemmas': [],
        'level': 'other',
        'explanation': 'Proved: the markers the diagnostics read are the documented ones -- interpret() / _interpret_node '
                       'put Push on the branch that opens a node and POP on the last triple of the nested node, with '
                       'the null-concept instance triple first; get_pushed_variable answers the variable of the first Push marker of a triple and None '
                       'for a triple without one, and never raises (also for triples without a marker entry); node_contexts '
                       'and appears_inverted leave the graph alone (frame contracts).  Bounded: node_contexts follows '
                       'the documented stack discipline and appears_inverted its documented rule on every graph the '
                       'sweep builds (contracts executed natively); node contexts and appears_inverted against the '
                       'text are decided by the bounded stand-in.',
    },
    'C11': {
        'functions': ['penman.model:Model.is_role_reifiable', 'penman.model:Model.is_concept_dereifiable',
                      'penman.model:Model.reify', 'penman.model:Model.dereify',
                      'penman.transform:_reified_markers', 'penman.transform:_edge_markers',
                      'penman.model:Model.__init__'],
        'lemmas': [],
        'level': 'other',
        'explanation': 'Proved for every model: Model.reify returns the three triples around a node variable that is '
                       'fresh with respect to the given variables; Model.dereify picks the first fitting table entry and '
                       'orients the edge by it (errors exactly as documented); marker migration (_reified_markers, '
                       '_edge_markers: a role alignment becomes the alignment of the new concept with the same indices '
                       'and prefix, the rest then Push then POPs go to the outgoing triple).  The graph-level clauses '
                       '(mutual inverse down to the text, never collapsing the top / referenced nodes) are decided by '
                       'the bounded stand-in.',
    },
    'C12': {
        'functions': ['penman.transform:_reified_markers', 'penman.transform:_edge_markers',
                      'penman.transform:_attr_markers', 'penman.model:Model.reify', 'penman.model:Model.dereify',
                      'penman.transform:indicate_branches@functional',
                      'penman.transform:reify_attributes@functional'],
        'lemmas': ['without_role_snoc'],
        'level': 'other',
        'explanation': 'Proved: the marker-splitting helpers and the model-level reify/dereify used by every '
                       'transformation; indicate_branches adds nothing but top-role triples (removing them gives back '
                       'the original triples in order), keeps the top and leaves its argument untouched, for every graph '
                       'without top-role triples and every model (AssertionError outside: recorded finding N14).  '
                       'Well-formedness, same top and faithful serialisation of the other transformed graphs and of '
                       'compositions are decided by the bounded stand-in.',
    },
    'C15': {
        'functions': [
            'penman.graph:_ensure_colon', 'penman.graph:Graph.__init__', 'penman.graph:Graph.top',
            'penman.graph:Graph.variables', 'penman.graph:Graph.top.setter',
            'penman.graph:Graph._filter_triples', 'penman.graph:Graph.instances',
            'penman.graph:Graph.edges', 'penman.graph:Graph.attributes',
            'penman.graph:Graph.__isub__', 'penman.graph:Graph.__ior__', 'penman.graph:Graph.__or__',
            'penman.graph:Graph.__sub__', 'penman.graph:Graph.reentrancies', 'penman.graph:Graph.__eq__',
        ],
        'lemmas': [],
        'level': 'other',
        'explanation': 'Proved for every triple list and top: graph construction (roles get their colon; top, marker '
                       'table and metadata copied), the implicit top, variables, the refusal of a top that is not a '
                       'variable, the filters, and instances / edges / attributes as order-preserving sub-lists that '
                       'partition the triples; the set operations |=, -=, |, - as order-preserving union and difference '
                       'that carry the added triples\' markers along, keep the metadata (in-place forms) or drop it '
                       '(new graph), leave the operands untouched and drop an explicit top once it no longer occurs '
                       '(iteration over a set is modelled as an arbitrary duplicate-free order; comprehension '
                       'equalities by prefix induction).  reentrancies() has its contract stated and executed natively, '
                       'not proved (defaultdict counting); sequences of operations are decided by the bounded stand-in.',
    },
    'C13': {
        'functions': [
            'penman.model:Model.has_role', 'penman.model:Model.is_role_inverted',
            'penman.model:Model.invert_role', 'penman.model:Model.invert',
            'penman.model:Model.deinvert', 'penman.models.noop:NoOpModel.deinvert',
            'penman.model:Model._canonicalize_inversion', 'penman.model:Model.canonicalize_role',
            'penman.model:Model.canonicalize', 'penman.transform:_canonicalize_node',
            'penman.transform:canonicalize_roles',
        ],
        'lemmas': ['canonicalize_role_adds_colon', 'canonicalize_role_idempotent', 'invert_role_involution',
                   'deinvert_laws'],
        'level': 'other',
        'explanation': 'Proved for every model (role table and normalisations uninterpreted): has_role, '
                       'is_role_inverted, invert_role, invert, deinvert (incl. the no-op override), '
                       '_canonicalize_inversion (parity, canonical result, colon kept, termination), '
                       'canonicalize_role, canonicalize, and the lemmas idempotence (outside N6), involution/flip '
                       '(outside N7), deinvert laws.  The tree clause: canonicalize_roles / _canonicalize_node return a tree '
                       'of the same shape, variables, targets and metadata with every role canonicalised (alignment '
                       'suffix kept) -- proved; that this agrees with canonicalising the reading is decided by the '
                       'bounded stand-in.',
    },
}


# ---- cross-cutting additions (kept in one place so that no property that relies on them is forgotten) ------

def _extend(pid, functions=(), lemmas=(), note=''):
    u = UNITS[pid]
    for f in functions:
        if f not in u['functions']:
            u['functions'].append(f)
    for l in lemmas:
        if l not in u['lemmas']:
            u['lemmas'].append(l)
    if note and note not in u['explanation']:
        u['explanation'] = u['explanation'] + '  ' + note


# every property whose statement decodes a text or reads a tree back ("decodes to the same graph",
# "interpreting the result", ...) rests on the decode side: which nodes a tree has, and the graph it is read as
DECODE_SIDE = ['penman.tree:_nodes', 'penman.tree:Tree.nodes', 'penman.layout:interpret']
for _p in ('C05', 'C06', 'C11', 'C12', 'C14', 'C20'):
    _extend(_p, DECODE_SIDE, note='Also proved here, because the statement reads results back: the decode side '
                                  '(_nodes, Tree.nodes, interpret, and _interpret_node through it).')

# the normal-form clause of C20 needs every stage to reach its fixed point in one pass; for role
# canonicalisation that is the idempotence lemma of C13
_extend('C20', ['penman.model:Model._canonicalize_inversion', 'penman.model:Model.canonicalize_role',
                'penman.transform:_canonicalize_node', 'penman.transform:canonicalize_roles'],
        ['canonicalize_role_adds_colon', 'canonicalize_role_idempotent'],
        note='Role canonicalisation is idempotent (lemma of C13, outside finding N6), which the normal-form clause needs.')

# the codec's methods are public ways of doing the same thing: each is the module function, with the
# caller's arguments (stage view)
_extend('C19', ['penman.codec:PENMANCodec.format_triples', 'penman.codec:PENMANCodec.parse_triples'],
        note='PENMANCodec.format_triples / parse_triples hand the list and the line style on unchanged (stage view).')
_extend('C01', ['penman.codec:PENMANCodec.format', 'penman.codec:PENMANCodec.parse'],
        note='PENMANCodec.format / parse hand tree, text and options on unchanged (stage view).')

# role inversion under a shipped model is an involution only if its table never defines a role together
# with its own inverse spelling: a fact about the live table (regex obligation), needed wherever edges
# are inverted and read back under that model
for _p in ('C13', 'C03', 'C02', 'C04'):
    if 'models' not in UNITS[_p].setdefault('regex', []):
        UNITS[_p]['regex'].append('models')
    _extend(_p, note='The role table of the shipped AMR model defines no role together with its inverse spelling (regex fact over the live table).')
