"""Which contract units (functions under contract, lemmas, regex facts) carry
each property.  A unit may serve several properties; its obligations are
generated once per check run."""

UNITS = {
    'C10': {
        'functions': ['penman.tree:is_atomic', 'penman.tree:_map_vars'],
        'lemmas': [],
        'level': 'other',
        'explanation': 'Proved: _map_vars rewrites a tree exactly as the relabelling spec says (same shape, roles, '
                       'concepts and constants; node variables replaced by their image; references replaced with '
                       'their alignment suffix kept; quoted strings untouched) for every tree and every map.  '
                       'That reset_variables builds a bijective first-fit map, and the isomorphism of the '
                       'readings, are decided by the bounded stand-in.',
    },
    'C08': {
        'functions': [],
        'regex': ['lexer'],
        'lemmas': [],
        'level': 'other',
        'explanation': 'Proved as single-variable regular-expression obligations over the live patterns (both '
                       'PENMAN_RE and TRIPLE_RE): no alternative matches empty or starts with a blank; every '
                       'non-blank character starts some match (coverage of the union); the ordered alternation '
                       'chooses exactly the class the documented grammar assigns; token languages equal the '
                       'documented productions (STRING outside N9); STRING is prefix-free; every quantifier is '
                       'deterministic.  That finditer/_lex report the matches with the right line, column and '
                       'text (T1 and the _lex loop) is decided by the bounded stand-in.',
    },
    'C04': {
        'functions': ['penman.layout:_process_role', 'penman.layout:_process_atomic',
                      'penman.layout:_interpret_node'],
        'lemmas': [],
        'level': 'other',
    },
    'C15': {
        'functions': [
            'penman.graph:_ensure_colon', 'penman.graph:Graph.__init__', 'penman.graph:Graph.top',
            'penman.graph:Graph.variables', 'penman.graph:Graph.top.setter',
            'penman.graph:Graph._filter_triples', 'penman.graph:Graph.instances',
            'penman.graph:Graph.edges', 'penman.graph:Graph.attributes',
        ],
        'lemmas': [],
        'level': 'other',
    },
    'C13': {
        'functions': [
            'penman.model:Model.has_role', 'penman.model:Model.is_role_inverted',
            'penman.model:Model.invert_role', 'penman.model:Model.invert',
            'penman.model:Model.deinvert', 'penman.models.noop:NoOpModel.deinvert',
            'penman.model:Model._canonicalize_inversion', 'penman.model:Model.canonicalize_role',
            'penman.model:Model.canonicalize',
        ],
        'lemmas': ['canonicalize_role_adds_colon', 'canonicalize_role_idempotent', 'invert_role_involution',
                   'deinvert_laws'],
        'level': 'other',
        'explanation': 'Proved for every model (role table and normalisations uninterpreted): has_role, '
                       'is_role_inverted, invert_role, invert, deinvert (incl. the no-op override), '
                       '_canonicalize_inversion (parity, canonical result, colon kept, termination), '
                       'canonicalize_role, canonicalize, and the lemmas idempotence (outside N6), involution/flip '
                       '(outside N7), deinvert laws.  The tree clause (canonicalize_roles) is decided by the '
                       'bounded stand-in.',
    },
}
