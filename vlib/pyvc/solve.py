"""Solver portfolio: every obligation is dumped as SMT-LIB text and z3 5.1
(`z3-new`), cvc5 and z3 4.8 are raced on it; a sat/unsat disagreement is
*undecided*.  In thorough mode a second solver has to confirm every unsat."""
import os
import re
import shutil
import subprocess
import tempfile
import time
from concurrent.futures import ThreadPoolExecutor

import z3

SOLVERS = [
    ('z3-5.1', ['z3-new', '-smt2'], 'z3'),
    ('cvc5', ['cvc5', '--strings-exp', '--dt-nested-rec', '--lang=smt2', '--fmf-fun'], 'cvc5'),
    ('z3-4.8', ['/usr/bin/z3', '-smt2'], 'z3'),
]
CVC5_PLAIN = ('cvc5', ['cvc5', '--strings-exp', '--dt-nested-rec', '--lang=smt2'], 'cvc5')


def smt2_of(pc, goal):
    s = z3.Solver()
    s.add(*pc)
    s.add(z3.Not(goal))
    return s.to_smt2()


def for_cvc5(text):
    t = re.sub(r'\(\(_ ([^\s()]+) 0\)', r'(\1', text)
    t = t.replace('(set-info :status unknown)', '')
    return '(set-logic ALL)\n' + t


def available():
    out = []
    for name, cmd, fam in SOLVERS:
        if shutil.which(cmd[0]) or os.path.exists(cmd[0]):
            out.append((name, cmd, fam))
    return out


_AVAIL = None


def race(text, timeout_s, confirm=False, tmpdir=None):
    """-> dict(verdict in sat/unsat/unknown, by=solver name, seconds, detail)"""
    global _AVAIL
    if _AVAIL is None:
        _AVAIL = available()
    d = tempfile.mkdtemp(prefix='pyvc-', dir=tmpdir)
    procs = []
    t0 = time.time()
    try:
        uses_lambda = '(lambda ' in text
        for name, cmd, fam in _AVAIL:
            if fam == 'cvc5' and uses_lambda:
                continue
            p = os.path.join(d, name + '.smt2')
            with open(p, 'w') as f:
                f.write(for_cvc5(text) if fam == 'cvc5' else text)
            if fam == 'cvc5':
                c = cmd[:-1] + ['--tlimit=%d' % int(timeout_s * 1000), p] if cmd[-1] == '--fmf-fun' else cmd + ['--tlimit=%d' % int(timeout_s * 1000), p]
                c = [x for x in CVC5_PLAIN[1]] + ['--tlimit=%d' % int(timeout_s * 1000), p]
            else:
                c = cmd + ['-T:%d' % max(1, int(timeout_s)), p]
            procs.append((name, subprocess.Popen(c, stdout=subprocess.PIPE, stderr=subprocess.PIPE, text=True)))
        answers = {}
        pending = dict(procs)
        deadline = t0 + timeout_s + 2
        while pending and time.time() < deadline:
            for name, p in list(pending.items()):
                rc = p.poll()
                if rc is None:
                    continue
                out = p.stdout.read().strip()
                first = out.split('\n')[0].strip() if out else ''
                answers[name] = (first if first in ('sat', 'unsat') else 'unknown', time.time() - t0, out[:300])
                del pending[name]
            definitive = [(n, a) for n, a in answers.items() if a[0] in ('sat', 'unsat')]
            if definitive and (not confirm or len(definitive) >= 2 or not pending):
                break
            time.sleep(0.01)
        for name, p in pending.items():
            p.kill()
        for name, p in procs:
            try:
                p.wait(timeout=2)
            except Exception:
                pass
        verdicts = {a[0] for a in answers.values() if a[0] in ('sat', 'unsat')}
        detail = {n: (a[0], round(a[1], 3)) for n, a in answers.items()}
        if len(verdicts) == 2:
            return {'verdict': 'unknown', 'by': 'disagreement', 'seconds': time.time() - t0, 'detail': detail}
        if not verdicts:
            why = 'timeout' if pending or not answers else 'unknown'
            return {'verdict': 'unknown', 'by': why, 'seconds': time.time() - t0, 'detail': detail,
                    'raw': {n: a[2] for n, a in answers.items()}}
        v = verdicts.pop()
        winners = sorted((a[1], n) for n, a in answers.items() if a[0] == v)
        res = {'verdict': v, 'by': winners[0][1], 'seconds': winners[0][0], 'detail': detail,
               'confirmed_by': [n for _, n in winners[1:]]}
        if confirm and v == 'unsat' and len(winners) < 2:
            res['unconfirmed'] = True
        return res
    finally:
        shutil.rmtree(d, ignore_errors=True)


def discharge_all(obligations, timeout_s=20, confirm=False, workers=None):
    """obligations: list of symex.Obligation -> list of result dicts (same order)"""
    workers = workers or min(16, (os.cpu_count() or 4))
    # three solver processes per query: keep the machine busy but not oversubscribed
    workers = max(2, workers // 2)
    texts = []
    for ob in obligations:
        texts.append(smt2_of(ob.pc, ob.goal))
    with ThreadPoolExecutor(workers) as pool:
        results = list(pool.map(lambda t: race(t, timeout_s, confirm), texts))
    for ob, r, t in zip(obligations, results, texts):
        r['name'] = ob.name
        r['kind'] = ob.kind
        r['smt2_bytes'] = len(t)
    return results


def model_for(ob, timeout_ms=30000):
    """in-process z3 model of pc ∧ ¬goal (for counterexample decoding)"""
    s = z3.Solver()
    s.set('timeout', timeout_ms)
    s.add(*ob.pc)
    s.add(z3.Not(ob.goal))
    r = s.check()
    if r == z3.sat:
        return s.model()
    return None
