"""Solver portfolio: every obligation is dumped as SMT-LIB text and z3 5.1
(`z3-new`), cvc5 and z3 4.8 are raced on it; a sat/unsat disagreement is
*undecided*.  In thorough mode a second solver has to confirm every unsat."""
import os
import re
import shutil
import subprocess
import tempfile
import time
from concurrent.futures import ThreadPoolExecutor

import z3

SOLVERS = [
    ('z3-5.1', ['z3-new', '-smt2'], 'z3'),
    ('cvc5', ['cvc5', '--strings-exp', '--dt-nested-rec', '--lang=smt2', '--fmf-fun'], 'cvc5'),
    ('z3-4.8', ['/usr/bin/z3', '-smt2'], 'z3'),
]
CVC5_PLAIN = ('cvc5', ['cvc5', '--strings-exp', '--dt-nested-rec', '--lang=smt2'], 'cvc5')


_CONNECTIVES = None


def _is_literal_atom(a):
    global _CONNECTIVES
    if _CONNECTIVES is None:
        _CONNECTIVES = {z3.Z3_OP_AND, z3.Z3_OP_OR, z3.Z3_OP_NOT, z3.Z3_OP_IMPLIES, z3.Z3_OP_ITE, z3.Z3_OP_XOR,
                        z3.Z3_OP_TRUE, z3.Z3_OP_FALSE}
    if not z3.is_app(a) or z3.is_quantifier(a):
        return False
    if a.decl().kind() in _CONNECTIVES:
        return False
    if a.decl().kind() == z3.Z3_OP_EQ and z3.is_bool(a.arg(0)):
        return False
    return True


def _root_const(t):
    while z3.is_app(t) and t.num_args() > 0:
        t = t.arg(0)
    return t


def _is_result_component(t):
    """ret__f!k  or  (seq.nth ret__f!k <numeral>)"""
    if z3.is_const(t) and t.decl().kind() == z3.Z3_OP_UNINTERPRETED:
        return t.decl().name().startswith('ret__')
    if z3.is_app(t) and t.decl().kind() == z3.Z3_OP_SEQ_NTH and z3.is_int_value(t.arg(1)):
        a = t.arg(0)
        return z3.is_const(a) and a.decl().kind() == z3.Z3_OP_UNINTERPRETED and a.decl().name().startswith('ret__')
    return False


def _is_named_value(t):
    """an application of a specification function, possibly under one constructor (VList(read_node(..)))"""
    if z3.is_app(t) and t.decl().kind() == z3.Z3_OP_DT_CONSTRUCTOR and t.num_args() == 1:
        t = t.arg(0)
    return z3.is_app(t) and t.num_args() > 0 and t.decl().name().startswith('sp_')


def _mentions_const(t, c):
    seen = set()
    stack = [t]
    while stack:
        e = stack.pop()
        if e.get_id() in seen:
            continue
        seen.add(e.get_id())
        if e.get_id() == c.get_id():
            return True
        if z3.is_quantifier(e):
            stack.append(e.body())
        elif z3.is_app(e):
            stack.extend(e.children())
    return False


def _is_value(t):
    return z3.is_int_value(t) or z3.is_string_value(t) or z3.is_true(t) or z3.is_false(t)


def unit_rewrite(pc, goal, rounds=5):
    """Equivalence-preserving simplification of one query: every conjunct of the path condition that is a
    literal (an atom or its negation) is kept as it is and used to rewrite the other conjuncts and the
    goal (the atom becomes true/false there; a constructor test that holds makes the tests for the other
    constructors false).  This removes the dynamic-type case distinctions that the path has already
    decided."""
    from . import values as vl
    flat = []
    for c in pc:
        if z3.is_and(c):
            flat.extend(c.children())
        else:
            flat.append(c)
    pc = flat
    for _ in range(rounds):
        units = {}
        for c in pc:
            if z3.is_quantifier(c):
                # a quantified conjunct occurring verbatim elsewhere (an invariant restated in a goal)
                units[c.get_id()] = (c, z3.BoolVal(True), c.get_id())
                continue
            a, v = (c.arg(0), False) if z3.is_not(c) else (c, True)
            if not _is_literal_atom(a):
                continue
            units[a.get_id()] = (a, z3.BoolVal(v), c.get_id())
            if v and a.decl().kind() == z3.Z3_OP_EQ:
                # term == literal value: the term is that value elsewhere
                l, r = a.arg(0), a.arg(1)
                if _is_value(l) and not _is_value(r):
                    l, r = r, l
                if _is_value(r) and not _is_value(l) and not z3.is_const(l):
                    units.setdefault(l.get_id(), (l, r, c.get_id()))
                else:
                    # component k of a callee's result == term not mentioning that result: the component
                    # is that term elsewhere (what was returned is then talked about in one way only)
                    for x, y in ((l, r), (r, l)):
                        if _is_result_component(x) and _is_named_value(y) and not _mentions_const(y, _root_const(x)):
                            units.setdefault(x.get_id(), (x, y, c.get_id()))
                            break
            if v and a.decl().kind() == z3.Z3_OP_DT_IS:
                t = a.arg(0)
                dt = t.sort()
                for k in range(dt.num_constructors()):
                    o = dt.recognizer(k)(t)
                    if o.get_id() != a.get_id():
                        units.setdefault(o.get_id(), (o, z3.BoolVal(False), c.get_id()))
        if not units:
            break
        changed = False
        out = []
        seen = set()
        for c in pc:
            # a literal is rewritten only by facts that come from other conjuncts: what is replaced inside
            # it is then a proper subterm of its atom, so no two conjuncts can rewrite each other away
            subs = [(a, b) for a, b, origin in units.values() if origin != c.get_id()]
            c2 = z3.substitute(c, *subs) if subs else c
            if c2.get_id() != c.get_id():
                c2 = vl.simp(c2)
                changed = True
            if z3.is_true(c2) or c2.get_id() in seen:
                continue
            seen.add(c2.get_id())
            if z3.is_and(c2):
                for d in c2.children():
                    if d.get_id() not in seen:
                        seen.add(d.get_id())
                        out.append(d)
            else:
                out.append(c2)
        subs = [(a, b) for a, b, _ in units.values()]
        g2 = z3.substitute(goal, *subs)
        if g2.get_id() != goal.get_id():
            g2 = vl.simp(g2)
            changed = True
        pc, goal = out, g2
        if not changed:
            break
    return pc, goal


def smt2_of(pc, goal):
    if not os.environ.get('PYVC_NO_UNIT_REWRITE'):
        try:
            pc, goal = unit_rewrite(list(pc), goal)
        except z3.Z3Exception:
            pass
    s = z3.Solver()
    s.add(*pc)
    s.add(z3.Not(goal))
    return s.to_smt2()


def for_cvc5(text):
    t = re.sub(r'\(\(_ ([^\s()]+) 0\)', r'(\1', text)
    t = t.replace('(set-info :status unknown)', '')
    head = '(set-logic ALL)\n'
    if 'last_indexof' in t:
        # cvc5 1.0 has no last-index-of: it is given as an uninterpreted function there, which only
        # weakens the query (an `unsat` stays valid; a `sat` of the weakened query is not used)
        t = t.replace('seq.last_indexof', 'pyvc_last_indexof').replace('str.last_indexof', 'pyvc_last_indexof')
        head += '(declare-fun pyvc_last_indexof (String String) Int)\n'
    return head + t


def weakened_for_cvc5(text):
    return 'last_indexof' in text


def available():
    out = []
    for name, cmd, fam in SOLVERS:
        if shutil.which(cmd[0]) or os.path.exists(cmd[0]):
            out.append((name, cmd, fam))
    return out


_AVAIL = None
CONFIRM_GRACE_S = 8


def race(text, timeout_s, confirm=False, tmpdir=None):
    """-> dict(verdict in sat/unsat/unknown, by=solver name, seconds, detail)"""
    global _AVAIL
    if _AVAIL is None:
        _AVAIL = available()
    d = tempfile.mkdtemp(prefix='pyvc-', dir=tmpdir)
    procs = []
    base_cmd = {}
    # z3 5.1 sometimes crashes (SIGSEGV) in its preprocessing on large string/sequence VCs; the same
    # query is then retried with that preprocessing configured differently
    ALT = ['smt.solve_eqs=false', 'smt.auto_config=false']
    crashed = {}
    t0 = time.time()
    try:
        uses_lambda = '(lambda ' in text
        for name, cmd, fam in _AVAIL:
            if fam == 'cvc5' and uses_lambda:
                continue
            p = os.path.join(d, name + '.smt2')
            with open(p, 'w') as f:
                f.write(for_cvc5(text) if fam == 'cvc5' else text)
            if fam == 'cvc5':
                c = cmd[:-1] + ['--tlimit=%d' % int(timeout_s * 1000), p] if cmd[-1] == '--fmf-fun' else cmd + ['--tlimit=%d' % int(timeout_s * 1000), p]
                c = [x for x in CVC5_PLAIN[1]] + ['--tlimit=%d' % int(timeout_s * 1000), p]
            else:
                # model_validate: z3 5.1 sometimes answers `sat` with a model that does not satisfy
                # the assertions (seen on string VCs); with validation that becomes an error = unknown
                c = cmd + ['-T:%d' % max(1, int(timeout_s)), 'model_validate=true', p]
            procs.append((name, subprocess.Popen(c, stdout=subprocess.PIPE, stderr=subprocess.PIPE, text=True)))
            if fam != 'cvc5':
                base_cmd[name] = c
        answers = {}
        pending = dict(procs)
        deadline = t0 + timeout_s + 2
        while pending and time.time() < deadline:
            for name, p in list(pending.items()):
                rc = p.poll()
                if rc is None:
                    continue
                out = p.stdout.read().strip()
                root = name.split('~')[0]
                if (rc < 0 or rc == 139) and root in base_cmd and crashed.get(root, 0) < len(ALT) \
                        and time.time() - t0 < timeout_s - 1:
                    alt = ALT[crashed.get(root, 0)]
                    crashed[root] = crashed.get(root, 0) + 1
                    left = max(1, int(timeout_s - (time.time() - t0)))
                    c2 = [x for x in base_cmd[root] if not x.startswith('-T:')]
                    c2 = c2[:-1] + ['-T:%d' % left, alt, c2[-1]]
                    np_ = subprocess.Popen(c2, stdout=subprocess.PIPE, stderr=subprocess.PIPE, text=True)
                    nname = '%s~%s' % (root, alt.split('.')[-1].split('=')[0])
                    procs.append((nname, np_))
                    pending[nname] = np_
                    answers[name] = ('crash', time.time() - t0, 'signal')
                    del pending[name]
                    continue
                first = out.split('\n')[0].strip() if out else ''
                if 'invalid model' in out:
                    first = 'unknown'     # z3 produced a model that fails its own validation
                if first == 'sat' and name.startswith('cvc5') and weakened_for_cvc5(text):
                    first = 'unknown'
                answers[name] = (first if first in ('sat', 'unsat') else 'unknown', time.time() - t0, out[:300])
                del pending[name]
            definitive = [(n, a) for n, a in answers.items() if a[0] in ('sat', 'unsat')]
            has_unsat = any(a[0] == 'unsat' for _, a in definitive)
            # an `unsat` ends the race (thorough: two of them); a `sat` waits for a second opinion
            # for a few seconds, so that a wrong `sat` of one solver shows up as a disagreement
            if definitive and not pending:
                break
            if has_unsat and (not confirm or len(definitive) >= 2):
                break
            if has_unsat and confirm:
                # thorough tier: a second solver gets a grace period to confirm, then the first verdict stands
                first_t = min(a[1] for _, a in definitive if a[0] == 'unsat')
                if time.time() - t0 > first_t + CONFIRM_GRACE_S:
                    break
            if definitive and not has_unsat and time.time() - t0 > min(timeout_s, definitive[0][1][1] + 5):
                break
            time.sleep(0.01)
        for name, p in pending.items():
            p.kill()
        for name, p in procs:
            try:
                p.wait(timeout=2)
            except Exception:
                pass
        verdicts = {a[0] for a in answers.values() if a[0] in ('sat', 'unsat')}
        detail = {n: (a[0], round(a[1], 3)) for n, a in answers.items()}
        if len(verdicts) == 2:
            return {'verdict': 'unknown', 'by': 'disagreement', 'seconds': time.time() - t0, 'detail': detail}
        if not verdicts:
            why = 'timeout' if pending or not answers else 'unknown'
            return {'verdict': 'unknown', 'by': why, 'seconds': time.time() - t0, 'detail': detail,
                    'raw': {n: a[2] for n, a in answers.items()}}
        v = verdicts.pop()
        winners = sorted((a[1], n) for n, a in answers.items() if a[0] == v)
        res = {'verdict': v, 'by': winners[0][1], 'seconds': winners[0][0], 'detail': detail,
               'confirmed_by': [n for _, n in winners[1:]]}
        if confirm and v == 'unsat' and len(winners) < 2:
            res['unconfirmed'] = True     # (reported in the evidence; the verdict stands)
        return res
    finally:
        shutil.rmtree(d, ignore_errors=True)


_FORK_OBS = None


def _text_of_index(i):
    ob = _FORK_OBS[i]
    return smt2_of(ob.pc, ob.goal)


def smt2_texts(obligations):
    """SMT-LIB text of every obligation.  Simplifying and printing is single-threaded z3 API work
    (about 0.1-0.3 s per large query), so for many obligations it is spread over forked workers: the
    children inherit the terms, only the texts come back."""
    global _FORK_OBS
    n = len(obligations)
    if n < 24 or os.environ.get('PYVC_NO_FORK_TEXTS'):
        return [smt2_of(ob.pc, ob.goal) for ob in obligations]
    import multiprocessing
    _FORK_OBS = obligations
    try:
        ctx = multiprocessing.get_context('fork')
        with ctx.Pool(min(12, max(2, (os.cpu_count() or 4) - 2))) as pool:
            return pool.map(_text_of_index, range(n), chunksize=max(1, n // 64))
    except Exception:
        return [smt2_of(ob.pc, ob.goal) for ob in obligations]
    finally:
        _FORK_OBS = None


def discharge_all(obligations, timeout_s=20, confirm=False, workers=None):
    """obligations: list of symex.Obligation -> list of result dicts (same order)"""
    workers = workers or min(16, (os.cpu_count() or 4))
    # three solver processes per query: keep the machine busy but not oversubscribed
    workers = max(2, workers // 2)
    texts = smt2_texts(obligations)
    with ThreadPoolExecutor(workers) as pool:
        results = list(pool.map(lambda t: race(t, timeout_s, confirm), texts))
    for ob, r, t in zip(obligations, results, texts):
        if r['verdict'] == 'sat' and os.environ.get('PYVC_KEEP_SAT'):
            with open(os.path.join(os.environ['PYVC_KEEP_SAT'], ob.name.replace('/', '_').replace(':', '_') + '.smt2'), 'w') as f:
                f.write(t)
        r['name'] = ob.name
        r['kind'] = ob.kind
        r['smt2_bytes'] = len(t)
    return results


def bounded_refutation(ob, timeout_s=10):
    """An obligation the solvers left open: look for a *small* counterexample (every sequence and
    string constant bounded).  A `sat` here is a genuine `sat` of the obligation (the bounds only
    restrict the search); anything else leaves it undecided."""
    for text, extra, bound in bounded_queries(ob):
        r = race(text, timeout_s)
        if r['verdict'] == 'sat':
            r['bounded_search'] = bound
            return r, extra
    return None, None


def bounded_queries(ob):
    """(smt2 text, extra constraints, bound) for bounds 1..3 -- built in the calling thread (the z3
    API is not thread-safe; only the solver processes run concurrently)"""
    consts = free_consts(list(ob.pc) + [ob.goal])
    out = []
    for bound in (1, 2, 3):
        extra = []
        for c in consts:
            if z3.is_seq(c):
                extra.append(z3.Length(c) <= (bound + 3 if z3.is_string(c) else bound))
        out.append((smt2_of(list(ob.pc) + extra, ob.goal), extra, bound))
    return out


def free_consts(terms):
    seen, out = set(), {}
    stack = list(terms)
    while stack:
        e = stack.pop()
        if e.get_id() in seen:
            continue
        seen.add(e.get_id())
        if z3.is_const(e) and e.decl().kind() == z3.Z3_OP_UNINTERPRETED:
            out[e.decl().name()] = e
        stack.extend(e.children())
        if z3.is_quantifier(e):
            stack.append(e.body())
    return list(out.values())


def model_for(ob, timeout_ms=30000):
    """in-process z3 model of pc and not goal (for counterexample decoding): first with small
    bounds on every sequence/string constant (small witnesses, and much easier to find), then free"""
    consts = free_consts(list(ob.pc) + [ob.goal])
    for bound in (2, 4, None):
        s = z3.Solver()
        s.set('timeout', timeout_ms // 3)
        s.add(*ob.pc)
        s.add(z3.Not(ob.goal))
        if bound is not None:
            for c in consts:
                if z3.is_seq(c):
                    s.add(z3.Length(c) <= (bound if not z3.is_string(c) else bound + 4))
        if s.check() == z3.sat:
            return s.model()
    return guided_model(ob, consts, timeout_ms)


def sexpr_split(text):
    """top-level s-expressions of *text* (strings with "" escapes respected)"""
    out, depth, start, i, n = [], 0, None, 0, len(text)
    while i < n:
        ch = text[i]
        if ch == '"':
            if depth == 0 and start is None:
                start = i
            i += 1
            while i < n:
                if text[i] == '"':
                    if i + 1 < n and text[i + 1] == '"':
                        i += 2
                        continue
                    break
                i += 1
            if depth == 0:
                out.append(text[start:i + 1])
                start = None
        elif ch == '(':
            if depth == 0:
                start = i
            depth += 1
        elif ch == ')':
            depth -= 1
            if depth == 0:
                out.append(text[start:i + 1])
                start = None
        elif depth == 0 and not ch.isspace():
            j = i
            while j < n and not text[j].isspace() and text[j] not in '()':
                j += 1
            out.append(text[i:j])
            i = j - 1
        i += 1
    return out


def guided_model(ob, consts, timeout_ms):
    """z3 5.1 in-process sometimes cannot construct a model that z3 4.8 finds at once: ask the
    command-line solvers for the values of the constants and pin them in-process"""
    from . import values as vl
    want = [c for c in consts if c.sort() in (vl.Val, vl.SeqVal, vl.String, vl.Int, vl.Bool)]
    if not want:
        return None
    text = smt2_of(ob.pc, ob.goal)
    names = ' '.join(c.sexpr() for c in want)
    text = text.replace('(check-sat)', '(check-sat)\n(get-value (%s))' % names)
    d = tempfile.mkdtemp(prefix='pyvc-')
    try:
        p = os.path.join(d, 'q.smt2')
        open(p, 'w').write(text)
        for cmd in (['/usr/bin/z3', '-smt2', '-T:20', p], ['z3-new', '-smt2', '-T:20', p]):
            try:
                r = subprocess.run(cmd, capture_output=True, text=True, timeout=30)
            except Exception:
                continue
            out = r.stdout.strip()
            if not out.startswith('sat'):
                continue
            body = out[3:].strip()
            if not body.startswith('('):
                continue
            pairs = sexpr_split(body[1:-1])
            pins = []
            decls = {c.sexpr(): c for c in want}
            for pr in pairs:
                parts = sexpr_split(pr[1:-1])
                if len(parts) != 2 or parts[0] not in decls:
                    continue
                if 'seq.nth_' in parts[1] or 'lambda' in parts[1]:
                    continue
                try:
                    a = z3.parse_smt2_string('(assert (= %s %s))' % (parts[0], parts[1]),
                                             sorts={'Val': vl.Val}, decls={parts[0]: decls[parts[0]]})
                    pins.extend(a)
                except Exception:
                    continue
            if not pins:
                continue
            s = z3.Solver()
            s.set('timeout', timeout_ms // 3)
            s.add(*ob.pc)
            s.add(z3.Not(ob.goal))
            s.add(*pins)
            if s.check() == z3.sat:
                return s.model()
        return None
    finally:
        shutil.rmtree(d, ignore_errors=True)


def forked(fn, timeout_s=60, default=None):
    """run fn() in a forked child (z3 can crash the interpreter on some seq/recfun queries);
    the child's JSON-able result is piped back; a crash or timeout gives *default*"""
    import json
    import select
    import signal
    r, w = os.pipe()
    pid = os.fork()
    if pid == 0:
        try:
            os.close(r)
            try:
                out = json.dumps(fn(), default=str).encode()
            except BaseException as e:  # noqa
                out = json.dumps({'__error__': '%s: %s' % (type(e).__name__, e)}).encode()
            with os.fdopen(w, 'wb') as f:
                f.write(out)
        finally:
            os._exit(0)
    os.close(w)
    data = b''
    deadline = time.time() + timeout_s
    with os.fdopen(r, 'rb') as f:
        while True:
            left = deadline - time.time()
            if left <= 0:
                break
            ready, _, _ = select.select([f], [], [], left)
            if not ready:
                break
            chunk = os.read(f.fileno(), 1 << 16)
            if not chunk:
                break
            data += chunk
    try:
        os.kill(pid, signal.SIGKILL)
    except ProcessLookupError:
        pass
    try:
        os.waitpid(pid, 0)
    except ChildProcessError:
        pass
    if not data:
        return default
    try:
        import json as _j
        return _j.loads(data.decode())
    except Exception:
        return default


def feasible_forked(pc, timeout_ms):
    def fn():
        s = z3.Solver()
        s.set('timeout', timeout_ms)
        s.add(*pc)
        return str(s.check())
    r = forked(fn, timeout_s=timeout_ms / 1000.0 + 2, default='unknown')
    return r != 'unsat'
