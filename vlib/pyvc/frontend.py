"""Front end: re-reads the real penman source on every run, finds the function
definitions under contract, and loads the sidecar contracts (also by AST)."""
import ast
import hashlib
import os


class SourceError(Exception):
    pass


class Module:
    """One penman module as read from <repo>/penman/<name>.py."""

    def __init__(self, repo, modname):
        self.modname = modname                      # e.g. 'penman.model'
        rel = modname.replace('.', '/') + '.py'
        self.path = os.path.join(repo, rel)
        if not os.path.exists(self.path):
            raise SourceError('module %s not found at %s' % (modname, self.path))
        self.text = open(self.path, encoding='utf-8').read()
        self.tree = ast.parse(self.text)
        self.funcs = {}       # qualname -> FunctionDef
        self.classes = {}     # name -> ClassDef
        self.imports = {}     # local name -> (module, name) or (module, None)
        self.consts = {}      # NAME -> ast expr (module-level simple assignments)
        for n in self.tree.body:
            if isinstance(n, ast.FunctionDef):
                self.funcs[n.name] = n
            elif isinstance(n, ast.ClassDef):
                self.classes[n.name] = n
                for m in n.body:
                    if isinstance(m, ast.FunctionDef):
                        key = n.name + '.' + m.name
                        for d in m.decorator_list:
                            if isinstance(d, ast.Attribute) and d.attr == 'setter':
                                key += '.setter'
                        self.funcs.setdefault(key, m)
            elif isinstance(n, ast.ImportFrom):
                for a in n.names:
                    self.imports[a.asname or a.name] = (n.module, a.name)
            elif isinstance(n, ast.Import):
                for a in n.names:
                    self.imports[a.asname or a.name.split('.')[0]] = (a.name, None)
            elif isinstance(n, ast.Assign) and len(n.targets) == 1 and isinstance(n.targets[0], ast.Name):
                self.consts[n.targets[0].id] = n.value
            elif isinstance(n, ast.AnnAssign) and isinstance(n.target, ast.Name) and n.value is not None:
                self.consts[n.target.id] = n.value

    def func(self, qualname):
        if qualname not in self.funcs:
            raise SourceError('function %s.%s not found' % (self.modname, qualname))
        return self.funcs[qualname]

    def source_hash(self, qualname):
        f = self.func(qualname)
        seg = ast.get_source_segment(self.text, f) or ''
        return hashlib.sha256(seg.encode()).hexdigest()


class Repo:
    def __init__(self, root):
        self.root = root
        self._mods = {}

    def module(self, modname):
        if modname not in self._mods:
            self._mods[modname] = Module(self.root, modname)
        return self._mods[modname]


# ---------------------------------------------------------------------------
# sidecar contracts

class Contract:
    def __init__(self, kind, target, fn):
        self.kind = kind            # 'contract' | 'spec' | 'lemma'
        self.target = target        # 'penman.model:Model.invert_role' (contracts)
        self.fn = fn                # FunctionDef of the sidecar function
        self.name = fn.name
        self.params = []            # [(name, type string)]
        self.ret = None
        self.requires = []
        self.ensures = []           # [(label or None, expr)]
        self.raises = []            # [(excname, when-expr or None)]
        self.raises_at = []         # [{lineno: expr, offset: expr}] parallel to raises
        self.invariants = {}        # loop ordinal -> [expr]
        self.decreases = {}
        self.modifies = []
        self.options = {}
        self.locals = {}
        self.induct = {}            # obligation label -> expression naming the sequence
        self.uses = []              # [(obligation label prefix, Call of a lemma)]: proved lemmas given as facts
        self.exclusions = []        # [(finding id, expr)] recorded known-finding classes
        for a in fn.args.args:
            ty = None
            if a.annotation is not None:
                ty = a.annotation.value if isinstance(a.annotation, ast.Constant) else ast.unparse(a.annotation)
            self.params.append((a.arg, ty or 'val'))
        if fn.returns is not None:
            self.ret = fn.returns.value if isinstance(fn.returns, ast.Constant) else ast.unparse(fn.returns)
        if kind in ('contract', 'lemma'):
            self._parse_clauses()

    def _parse_clauses(self):
        self.body = []
        for st in self.fn.body:
            if isinstance(st, ast.Expr) and isinstance(st.value, ast.Constant):
                continue  # docstring
            if isinstance(st, ast.Expr) and isinstance(st.value, ast.Call) and isinstance(st.value.func, ast.Name):
                c = st.value
                nm = c.func.id
                kw = {k.arg: k.value for k in c.keywords}
                if nm == 'requires':
                    self.requires.append(c.args[0])
                    continue
                if nm == 'ensures':
                    label = kw['label'].value if 'label' in kw else None
                    self.ensures.append((label, c.args[0]))
                    continue
                if nm == 'raises':
                    self.raises.append((c.args[0].id, kw.get('when')))
                    self.raises_at.append({k: v for k, v in kw.items() if k in ('lineno', 'offset')})
                    continue
                if nm == 'invariant':
                    self.invariants.setdefault(c.args[0].value, []).append(_unlambda(c.args[1]))
                    continue
                if nm == 'decreases':
                    self.decreases[c.args[0].value] = _unlambda(c.args[1])
                    continue
                if nm == 'modifies':
                    self.modifies.extend(a.id for a in c.args)
                    continue
                if nm == 'option':
                    for k, v in kw.items():
                        self.options[k] = ast.literal_eval(v)
                    continue
                if nm == 'local':
                    for k, v in kw.items():
                        self.locals[k] = ast.literal_eval(v)
                    continue
                if nm == 'induct':
                    self.induct[c.args[0].value] = c.args[1]
                    continue
                if nm == 'use':
                    self.uses.append((c.args[0].value, _unlambda(c.args[1])))
                    continue
                if nm == 'exclude':
                    self.exclusions.append((c.args[0].value, c.args[1]))
                    continue
            self.body.append(st)   # lemma proof steps (calls to other lemmas, asserts)


def _unlambda(e):
    return e.body if isinstance(e, ast.Lambda) else e


class Sidecar:
    """All contracts, spec functions and lemmas of /verif/contracts."""

    def __init__(self, directory):
        self.contracts = {}   # target -> Contract
        self.specs = {}       # name -> Contract(kind='spec')
        self.lemmas = {}
        self.files = {}
        self.trusted_markers = []
        for fn in sorted(os.listdir(directory)):
            if not fn.endswith('.py') or fn.startswith('_'):
                continue
            p = os.path.join(directory, fn)
            text = open(p, encoding='utf-8').read()
            self.files[fn] = hashlib.sha256(text.encode()).hexdigest()
            tree = ast.parse(text)
            for i, line in enumerate(text.split('\n'), 1):
                if 'TRUSTED' in line or 'ASSUME' in line:
                    self.trusted_markers.append('%s:%d: %s' % (fn, i, line.strip()))
            for n in tree.body:
                if not isinstance(n, ast.FunctionDef):
                    continue
                for d in n.decorator_list:
                    if isinstance(d, ast.Call) and isinstance(d.func, ast.Name) and d.func.id == 'contract':
                        target = d.args[0].value
                        c = Contract('contract', target, n)
                        for k in d.keywords:
                            c.options[k.arg] = ast.literal_eval(k.value)
                        c.file = fn
                        self.contracts[target] = c
                    elif isinstance(d, ast.Name) and d.id == 'spec':
                        c = Contract('spec', None, n)
                        c.file = fn
                        self.specs[n.name] = c
                    elif isinstance(d, ast.Call) and isinstance(d.func, ast.Name) and d.func.id == 'spec':
                        c = Contract('spec', None, n)
                        for k in d.keywords:
                            c.options[k.arg] = ast.literal_eval(k.value)
                        c.file = fn
                        self.specs[n.name] = c
                    elif isinstance(d, ast.Name) and d.id == 'lemma':
                        c = Contract('lemma', None, n)
                        c.file = fn
                        self.lemmas[n.name] = c
