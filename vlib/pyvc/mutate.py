"""Mutation, encoded functionally: every in-place update is written back along
the access path to its root name.  An object mutated through one name poisons
every other name that may share it (reads of a poisoned name are Unsupported),
so aliasing can make a function undecided but never unsound."""
import ast
import os

import z3

from . import values as vl
from .values import (Val, SeqVal, VNone, VInt, VStr, VTuple, VList, is_int, is_list, is_tuple,
                     get_i, get_items, get_elems)
from .symex import (Unsupported, V, SSet, SDict, SObj, SModel, SFunc, SGen, as_val, as_bool, mk_bool,
                    static_kind, fresh)


def root_name(e):
    while isinstance(e, (ast.Subscript, ast.Attribute)):
        e = e.value
    return e.id if isinstance(e, ast.Name) else None


def poison_aliases(ex, obj_expr, node=None):
    in_place(ex, obj_expr, node)


def store(ex, target, val, node, in_place=True):
    """write *val* to the location denoted by *target* (an expression AST)"""
    if isinstance(target, ast.Name):
        if target.id not in ex.env and target.id not in ex.ghost:
            raise Unsupported('mutation of non-local %s' % target.id)
        ex.env[target.id] = val
        return
    if isinstance(target, ast.Attribute):
        base = ex.ev(target.value)
        if isinstance(base, SObj):
            base.fields[target.attr] = val
            return
        raise Unsupported('attribute store on %s' % type(base).__name__)
    if isinstance(target, ast.Subscript):
        base = ex.ev(target.value)
        if isinstance(base, SDict):
            k = ex.evv(target.slice)
            store(ex, target.value, ex.dict_set(base, k, val), node)
            return
        bv = as_val(base)
        if isinstance(target.slice, ast.Slice):
            sl = target.slice
            if sl.lower is None and sl.upper is None and sl.step is None:
                # x[:] = seq  (same object, new contents)
                from .builtins import seq_term
                store(ex, target.value, V(VList(seq_term(ex, val, node))), node)
                return
            raise Unsupported('slice assignment')
        idx = ex.evv(target.slice)
        ex.safe(is_int(idx), 'TypeError', 'index', node)
        kind = static_kind(bv)
        if kind not in ('VList', 'VTuple'):
            kk = ex.known_kind(bv)
            if kk == 'VList':
                kind, seq = 'VList', vl.simp(get_elems(bv))
            elif kk == 'VTuple':
                kind, seq = 'VTuple', vl.simp(get_items(bv))
            elif ex.branch(is_list(bv)):
                kind, seq = 'VList', get_elems(bv)
            else:
                ex.safe(is_tuple(bv), 'TypeError', 'item store', node)
                kind, seq = 'VTuple', get_items(bv)
        else:
            seq = bv.arg(0)
        n = z3.Length(seq)
        i = vl.simp(get_i(idx))
        j = i if ex.is_nonneg(i) else vl.simp(z3.If(i < 0, i + n, i))
        ex.safe(z3.And(j >= 0, j < n), 'IndexError', 'item store in range', node)
        kn = ex.known_len(seq)
        if kn is None and os.environ.get('PYVC_DEBUG_LEN'):
            import sys
            print('known_len miss for', vl.simp(z3.Length(seq)).sexpr()[:300], file=sys.stderr)
            for c in ex.pc:
                if z3.is_eq(c) and 'seq.len' in c.sexpr()[:200] and len(c.sexpr()) < 400:
                    print('    lit', c.sexpr()[:300].replace('\n', ' '), file=sys.stderr)
        if kn is not None and z3.is_int_value(j) and 0 <= j.as_long() < kn <= 8:
            # a sequence of known length: the elements are spelled out
            parts = [z3.Unit(as_val(val)) if q == j.as_long() else z3.Unit(seq[q]) for q in range(kn)]
            new = parts[0] if len(parts) == 1 else z3.Concat(*parts)
        else:
            new = z3.Concat(z3.SubSeq(seq, 0, j), z3.Unit(as_val(val)), z3.SubSeq(seq, j + 1, n - j - 1))
        store(ex, target.value, V(VList(new) if kind == 'VList' else VTuple(new)), node)
        return
    raise Unsupported('store target %s' % type(target).__name__)


def assign_target(ex, tgt, val, st):
    if isinstance(tgt, ast.Subscript):
        base = ex.ev(tgt.value)
        if isinstance(base, V) and static_kind(base.t) == 'VTuple':
            raise Unsupported('item assignment on a tuple')
        poison_aliases(ex, tgt.value, st)
        store(ex, tgt, val, st)
        return
    if isinstance(tgt, ast.Attribute):
        base = ex.ev(tgt.value)
        if isinstance(base, SObj):
            if base.cls == 'Graph' and tgt.attr == 'top':
                ex.call_contract('penman.graph', 'Graph.top.setter', ([val], {}), st, self_obj=base)
                return
            poison_aliases(ex, tgt.value, st)
            base.fields[tgt.attr] = val
            return
        raise Unsupported('attribute assignment on %s' % type(base).__name__)
    raise Unsupported('assignment target')


def delete_target(ex, tgt, st):
    if isinstance(tgt, ast.Subscript):
        base = ex.ev(tgt.value)
        if isinstance(base, SDict):
            k = ex.evv(tgt.slice)
            ex.safe(z3.Select(base.dom, k), 'KeyError', 'del key present', st)
            n = base.copy()
            n.dom = z3.Store(base.dom, k, False)
            if base.keys is not None:
                n.keys = seq_remove(base.keys, k)
            poison_aliases(ex, tgt.value, st)
            store(ex, tgt.value, n, st)
            return
    raise Unsupported('del')


_seq_remove = None


def seq_remove(seq, x):
    """sequence without the (first = only) occurrence of x (dict keys are distinct)"""
    global _seq_remove
    if _seq_remove is None:
        _seq_remove = z3.RecFunction('seq_remove', SeqVal, Val, SeqVal)
        q = z3.Const('q', SeqVal)
        y = z3.Const('y', Val)
        n = z3.Length(q)
        z3.RecAddDefinition(_seq_remove, [q, y], z3.If(n == 0, z3.Empty(SeqVal),
                            z3.If(q[n - 1] == y, z3.SubSeq(q, 0, n - 1),
                                  z3.Concat(_seq_remove(z3.SubSeq(q, 0, n - 1), y), z3.Unit(q[n - 1])))))
    return _seq_remove(seq, x)


def list_method(ex, recv_expr, v, name, e):
    from .builtins import args_of, seq_term, keyf_id
    k = static_kind(v)
    if k != 'VList':
        ex.safe(is_list(v), 'AttributeError', '.%s on non-list' % name, e)
        seq = get_elems(v)
    else:
        seq = v.arg(0)
    args, kw = args_of(ex, e)
    if name == 'append':
        new = z3.Concat(seq, z3.Unit(as_val(args[0])))
        res = V(VNone)
    elif name == 'extend':
        new = z3.Concat(seq, seq_term(ex, args[0], e))
        res = V(VNone)
    elif name == 'insert':
        idx = as_val(args[0])
        ex.safe(is_int(idx), 'TypeError', 'insert index', e)
        i = get_i(idx)
        n = z3.Length(seq)
        j = vl.simp(z3.If(i < 0, z3.If(i + n < 0, 0, i + n), z3.If(i > n, n, i)))
        if z3.is_int_value(vl.simp(i)) and vl.simp(i).as_long() == 0:
            new = z3.Concat(z3.Unit(as_val(args[1])), seq)        # insert(0, x): x in front
        else:
            new = z3.Concat(z3.SubSeq(seq, 0, j), z3.Unit(as_val(args[1])), z3.SubSeq(seq, j, n - j))
        res = V(VNone)
    elif name == 'pop':
        n = z3.Length(seq)
        ex.safe(n > 0, 'IndexError', 'pop from empty list', e)
        if args:
            idx = as_val(args[0])
            if not (static_kind(idx) == 'VInt' and z3.is_int_value(idx.arg(0)) and idx.arg(0).as_long() == 0):
                raise Unsupported('list.pop(i)')
            res = V(seq[0])
            new = z3.SubSeq(seq, 1, n - 1)
        else:
            res = V(seq[n - 1])
            new = z3.SubSeq(seq, 0, n - 1)
    elif name == 'clear':
        new = z3.Empty(SeqVal)
        res = V(VNone)
    elif name == 'sort':
        kid = keyf_id(ex, kw.get('key'))
        f = z3.Function('sorted_by_%s' % kid, SeqVal, SeqVal)
        new = f(seq)
        ex.assume(z3.Length(new) == z3.Length(seq))
        ex.ghost_sorted = getattr(ex, 'ghost_sorted', []) + [(seq, new, kid)]
        res = V(VNone)
    elif name == 'reverse':
        from .builtins import seq_rev
        new = seq_rev(seq)
        res = V(VNone)
    else:
        raise Unsupported('list.%s' % name)
    poison_aliases(ex, recv_expr, e)
    store(ex, recv_expr, V(VList(new)), e)
    return res


def set_method(ex, recv_expr, s, name, e):
    from .builtins import args_of, seq_term, set_of_seq_term
    args, kw = args_of(ex, e)
    if name == 'add':
        new = s.added(as_val(args[0]))
        poison_aliases(ex, recv_expr, e)
        store(ex, recv_expr, new, e)
        return V(VNone)
    if name == 'difference':
        o = args[0]
        o = o if isinstance(o, SSet) else SSet(seq_term(ex, o, e))
        return s.minus(o)
    if name == 'update':
        o = args[0]
        o = o if isinstance(o, SSet) else SSet(seq_term(ex, o, e))
        new = s.union(o)
        poison_aliases(ex, recv_expr, e)
        store(ex, recv_expr, new, e)
        return V(VNone)
    raise Unsupported('set.%s' % name)


def dict_method(ex, recv_expr, d, name, e):
    from .builtins import args_of
    args, kw = args_of(ex, e)
    if name == 'get':
        k = as_val(args[0])
        dv = args[1] if len(args) > 1 else V(VNone)
        if d.vkind == 'set':
            if not isinstance(dv, SSet):
                # q.get(cur, []) on a dict of sets: empty default
                return SSet(z3.If(z3.Select(d.dom, k), z3.Select(d.val, k), vl.empty_seq()))
            return SSet(z3.If(z3.Select(d.dom, k), z3.Select(d.val, k), dv.plain()))
        return V(z3.If(z3.Select(d.dom, k), z3.Select(d.val, k), as_val(dv)))
    if name == 'pop':
        k = as_val(args[0])
        if len(args) > 1:
            res = V(z3.If(z3.Select(d.dom, k), z3.Select(d.val, k), as_val(args[1])))
        else:
            ex.safe(z3.Select(d.dom, k), 'KeyError', 'dict.pop key present', e)
            res = V(z3.Select(d.val, k))
        n = d.copy()
        n.dom = z3.Store(d.dom, k, False)
        if d.keys is not None:
            n.keys = z3.If(z3.Select(d.dom, k), seq_remove(d.keys, k), d.keys)
        poison_aliases(ex, recv_expr, e)
        store(ex, recv_expr, n, e)
        return res
    if name == 'items' or name == 'keys' or name == 'values':
        return SFunc('dictview', d=d, view=name)
    if name == 'clear':
        n = SDict(vl.empty_set(), d.val, vl.empty_seq() if d.keys is not None else None, d.vkind, d.default)
        store(ex, recv_expr, n, e)
        return V(VNone)
    if name == 'update':
        o = args[0]
        if not isinstance(o, SDict):
            raise Unsupported('dict.update(non-dict)')
        k = fresh('k', Val)
        n = d.copy()
        n.dom = z3.Lambda([k], z3.Or(z3.Select(d.dom, k), z3.Select(o.dom, k)))
        n.val = z3.Lambda([k], z3.If(z3.Select(o.dom, k), z3.Select(o.val, k), z3.Select(d.val, k)))
        if d.keys is not None:
            if o.keys is None:
                n.keys = None
            else:
                from .builtins import comprehension
                n.keys = z3.Concat(d.keys, seq_filter_notin(o.keys, d.dom))
        poison_aliases(ex, recv_expr, e)
        store(ex, recv_expr, n, e)
        return V(VNone)
    if name == 'setdefault':
        raise Unsupported('dict.setdefault')
    raise Unsupported('dict.%s' % name)


_filter_notin = None


def seq_filter_notin(seq, dom):
    global _filter_notin
    if _filter_notin is None:
        _filter_notin = z3.RecFunction('seq_filter_notin', SeqVal, vl.SetVal, SeqVal)
        q = z3.Const('q', SeqVal)
        dm = z3.Const('dm', vl.SetVal)
        n = z3.Length(q)
        init = _filter_notin(z3.SubSeq(q, 0, n - 1), dm)
        z3.RecAddDefinition(_filter_notin, [q, dm], z3.If(n == 0, z3.Empty(SeqVal),
                            z3.If(z3.Select(dm, q[n - 1]), init, z3.Concat(init, z3.Unit(q[n - 1])))))
    return _filter_notin(seq, dom)


# ---------------------------------------------------------------------------
# ownership: which parameters may an object reachable from a name belong to?

FRESH_CALLS = {'list', 'set', 'dict', 'tuple', 'sorted', 'reversed', 'str', 'len', 'int', 'bool',
               'enumerate', 'zip', 'range', 'iter', 'map'}


def expr_roots(ex, e):
    """(outer object is fresh?, set of parameter roots possibly reachable)"""
    if isinstance(e, ast.Name):
        if e.id in ex.roots:
            return ex.fresh_outer.get(e.id, False), set(ex.roots[e.id])
        return True, set()
    if isinstance(e, ast.Attribute):
        f, r = expr_roots(ex, e.value)
        return False, r
    if isinstance(e, ast.Subscript):
        f, r = expr_roots(ex, e.value)
        if isinstance(e.slice, ast.Slice):
            return True, r
        return False, r
    if isinstance(e, ast.IfExp):
        f1, r1 = expr_roots(ex, e.body)
        f2, r2 = expr_roots(ex, e.orelse)
        return f1 and f2, r1 | r2
    if isinstance(e, ast.Call):
        if isinstance(e.func, ast.Attribute) and e.func.attr in ('get', 'pop', 'setdefault', 'next', 'values', 'items', 'keys'):
            f, r = expr_roots(ex, e.func.value)
            return False, r
        if isinstance(e.func, ast.Attribute) and isinstance(e.func.value, ast.Name) and e.func.value.id == 'copy':
            if e.func.attr == 'deepcopy':
                return True, set()
            # copy.copy: a new outer object that shares everything inside
            return True, set().union(*[expr_roots(ex, a)[1] for a in e.args]) if e.args else set()
        if isinstance(e.func, ast.Name) and e.func.id in FRESH_CALLS:
            r = set()
            for a in e.args:
                r |= expr_roots(ex, a)[1]
            return True, r
        if isinstance(e.func, ast.Name) and e.func.id == 'cast' and len(e.args) == 2:
            return expr_roots(ex, e.args[1])
        return True, set()       # penman functions return new objects (checked by their own frame obligations)
    if isinstance(e, (ast.List, ast.Tuple, ast.Set)):
        r = set()
        for x in e.elts:
            r |= expr_roots(ex, x)[1]
        return True, r
    if isinstance(e, ast.BinOp):
        return True, expr_roots(ex, e.left)[1] | expr_roots(ex, e.right)[1]
    if isinstance(e, (ast.ListComp, ast.SetComp, ast.GeneratorExp, ast.DictComp)):
        r = set()
        for g in e.generators:
            r |= expr_roots(ex, g.iter)[1]
        return True, r
    return True, set()


def access_path(ex, e):
    """(root parameter, access path) of an attribute / subscript chain, or None when the
    expression is anything else; '*' stands for an index that is not a constant"""
    comps = []
    while isinstance(e, (ast.Subscript, ast.Attribute)):
        if isinstance(e, ast.Attribute):
            comps.append(e.attr)
        elif isinstance(e.slice, ast.Constant):
            comps.append(e.slice.value)
        elif isinstance(e.slice, ast.Slice):
            return None
        else:
            comps.append('*')
        e = e.value
    if not isinstance(e, ast.Name):
        return None
    comps.reverse()
    base = getattr(ex, 'paths', {}).get(e.id)
    if base is not None:
        return (base[0], base[1] + tuple(comps))
    if e.id in getattr(ex, 'param_names', []):
        return (e.id, tuple(comps))
    return None


def paths_disjoint(mutated, held):
    """a name holding the value at access path *held* is unaffected by an in-place update of the
    object at path *mutated* (same root) unless its value contains that object, i.e. unless *held*
    is a prefix of *mutated*"""
    if mutated is None or held is None or mutated[0] != held[0]:
        return False
    if len(held[1]) > len(mutated[1]):
        return True
    for x, y in zip(held[1], mutated[1]):
        if x == '*' or y == '*':
            return False
        if x != y:
            return True
    return False


def record_roots(ex, tgt, value_expr):
    f, r = expr_roots(ex, value_expr)
    if not hasattr(ex, 'paths'):
        ex.paths = {}
    for n in ast.walk(tgt):
        if isinstance(n, ast.Name):
            ex.roots[n.id] = set(r)
            # parts obtained by unpacking are inner objects of the value
            ex.fresh_outer[n.id] = f if isinstance(tgt, ast.Name) else False
            ex.paths[n.id] = access_path(ex, value_expr) if isinstance(tgt, ast.Name) else None


IMMUTABLE_ANNOTATION_NAMES = {'Optional', 'Union', 'Variable', 'Role', 'Constant', 'Target', 'str', 'int',
                              'float', 'bool', 'None', 'BasicTriple'}


def annotated_immutable(ex, p):
    """the real function annotates parameter *p* with immutable types only (type annotations of the
    code under contract are taken as input invariants, T10)"""
    fdef = getattr(ex, 'real_fdef', None)
    if fdef is None:
        return False
    for a in fdef.args.args + fdef.args.kwonlyargs:
        if a.arg == p and a.annotation is not None:
            names = {n.id for n in ast.walk(a.annotation) if isinstance(n, ast.Name)}
            consts = [n for n in ast.walk(a.annotation) if isinstance(n, ast.Constant) and n.value is not None]
            return bool(names) and names <= IMMUTABLE_ANNOTATION_NAMES and not consts
    return False


def note_share(ex, tgt, value_expr, val, node):
    """`obj.attr = e` where e denotes an existing object (not a new one) that a *different*
    parameter can still reach: from here on the two share it, and a later in-place update of one is
    seen through the other.  Harmless for immutable values only -- that is the obligation."""
    r = root_name(tgt.value)
    f, roots = expr_roots(ex, value_expr)
    if f:
        return
    own = ex.roots.get(r, {r}) if r is not None else set()
    for p in sorted(roots):
        if p not in getattr(ex, 'param_names', []) or p == r or p in own:
            continue
        if isinstance(value_expr, ast.Name) and value_expr.id == p and annotated_immutable(ex, p):
            continue                        # the real function's annotation says str / int / None ...
        if isinstance(val, SModel):
            continue                        # semantic models are shared by design and never updated
        if isinstance(val, V):
            cond = z3.Not(is_list(val.t))
        else:
            cond = z3.BoolVal(False)        # dict / set / object: mutable
        ex.oblige('frame', cond, label='frame[%s]:shared with %s.%s@%s'
                  % (p, r, tgt.attr, getattr(node, 'lineno', '?')))


def depth_of(e):
    d = 0
    while isinstance(e, (ast.Subscript, ast.Attribute)):
        d += 1
        e = e.value
    return d


def in_place(ex, obj_expr, node):
    """an object denoted by *obj_expr* is mutated in place: frame + alias bookkeeping"""
    r = root_name(obj_expr)
    if r is None:
        raise Unsupported('in-place mutation of a temporary')
    d = depth_of(obj_expr)
    fresh_outer = ex.fresh_outer.get(r, r not in getattr(ex, 'param_names', []))
    roots = ex.roots.get(r, set())
    if d == 0 and fresh_outer:
        return
    allowed = set(ex.contract.modifies) if ex.contract is not None else set()
    for p in sorted(roots):
        if p in getattr(ex, 'param_names', []) and p not in allowed:
            ex.oblige('frame', z3.BoolVal(False),
                      label='frame[%s]:mutated through %s@%s' % (p, r, getattr(node, 'lineno', '?')))
    mp = access_path(ex, obj_expr)
    for n, rs in list(ex.roots.items()):
        if n != r and n in ex.env and rs & roots:
            if paths_disjoint(mp, getattr(ex, 'paths', {}).get(n)):
                continue       # e.g. `current = self._next` is untouched by next(self.iterator)
            ex.poisoned.add(n)


def note_param_mutation(ex, actual, node):
    """a callee modifies *actual* (by its contract)"""
    for n, v in ex.env.items():
        if v is actual:
            in_place(ex, ast.Attribute(value=ast.Name(id=n, ctx=ast.Load()), attr='_', ctx=ast.Load()), node)
            return
