"""Lexer facts as pure regular-expression obligations (C08, C18, part of C01/C07/C19).

The patterns are read from the current source of penman/_lexer.py (PATTERNS and the order of the
names given to _compile for PENMAN_RE / TRIPLE_RE), parsed by CPython's own re._parser, and
translated to z3 regular expressions.  Every fact is a single-variable query: it holds iff
`InRe(x, R)` is unsatisfiable for the stated R."""
import ast

import z3

from . import regex as rx
from .symex import Obligation

String = z3.StringSort()
RE = z3.ReSort(String)
BLANKS = ' \t\r\n\x0b\x0c'
NOTNAME = ' \n\t\r\x0c\x0b"()/:~'


def any_star():
    return z3.Full(RE)


def prefixed(r):
    """strings that have a prefix in L(r)"""
    return z3.Concat(r, any_star())


def load_patterns(repo):
    mod = repo.module('penman._lexer')
    pats = ast.literal_eval(mod.consts['PATTERNS'])
    orders = {}
    for name in ('PENMAN_RE', 'TRIPLE_RE'):
        call = mod.consts[name]
        if not (isinstance(call, ast.Call) and isinstance(call.func, ast.Name) and call.func.id == '_compile'):
            raise ValueError('%s is no longer built by _compile(...)' % name)
        orders[name] = [ast.literal_eval(a) for a in call.args]
    # _compile joins '(?P<name>pattern)' with '\n|' under re.VERBOSE: an ordered alternation of named groups
    comp = mod.funcs.get('_compile')
    src = ast.get_source_segment(mod.text, comp) if comp is not None else ''
    if "'\\n|'.join" not in src or 're.VERBOSE' not in src:
        raise ValueError('_compile no longer builds an ordered VERBOSE alternation of named groups')
    return pats, orders


def documented():
    """the documented lexical classes (docs/notation.rst), as regular expressions"""
    name = rx.not_chars(NOTNAME)
    digit = z3.Range('0', '9')
    letter = z3.Union(z3.Range('a', 'z'), z3.Range('A', 'Z'))
    strchar = rx.not_chars('\n\r\x0c\x0b')
    doc = {
        'SYMBOL': z3.Plus(name),
        'ROLE': z3.Concat(rx.ch(':'), z3.Star(name)),
        'ALIGNMENT': z3.Concat(rx.ch('~'), z3.Option(z3.Concat(letter, z3.Option(rx.ch('.')))), z3.Plus(digit),
                               z3.Star(z3.Concat(rx.ch(','), z3.Plus(digit)))),
        # String <- '"' (!'"' (StrEscape / StrChar))* '"' ; StrEscape <- '\\' StrChar
        'STRING': z3.Concat(rx.ch('"'),
                            z3.Star(z3.Union(z3.Concat(rx.ch('\\'), strchar),
                                             z3.Intersect(strchar, rx.not_chars('"\\')),
                                             # a backslash that cannot start an escape is an ordinary StrChar
                                             )),
                            rx.ch('"')),
        'LPAREN': rx.ch('('), 'RPAREN': rx.ch(')'), 'SLASH': rx.ch('/'),
        'COMMENT': z3.Concat(rx.ch('#'), z3.Star(rx.not_chars('\n'))),
        'UNEXPECTED': rx.not_chars(BLANKS),
    }
    return doc


def facts(repo):
    """-> list of (name, Obligation)"""
    pats, orders = load_patterns(repo)
    R = {}
    for nm, p in pats.items():
        R[nm] = rx.from_python(p, verbose=True)
    x = z3.String('x')
    out = []

    def empty(name, r, info=None):
        out.append(Obligation('lexer:' + name, 'regex', [], z3.Not(z3.InRe(x, r)), info or {}))

    blank = rx.char_class(BLANKS)
    nonblank = rx.not_chars(BLANKS)
    doc = documented()
    no_nl = z3.Star(rx.not_chars('\n'))     # a line has no interior newline (precondition of _lex)
    for which, names in orders.items():
        for nm in names:
            if nm not in R:
                raise ValueError('pattern %s missing' % nm)
            # no alternative matches the empty string; none matches a string starting with a blank
            empty('%s.%s.not-empty' % (which, nm), z3.Intersect(R[nm], z3.Re(z3.StringVal(''))))
            empty('%s.%s.no-leading-blank' % (which, nm), z3.Intersect(R[nm], prefixed(blank)))
        # coverage: at every non-blank character of a line some alternative matches a prefix, so the
        # scanner never skips a non-blank character (stated about the union, not about UNEXPECTED)
        union_prefix = z3.Union(*[prefixed(R[nm]) for nm in names])
        empty('%s.coverage' % which, z3.Intersect(prefixed(nonblank), no_nl, z3.Complement(union_prefix)))
        # blanks: a line consisting of blanks only has no match at all
        empty('%s.blank-only-has-no-token' % which,
              z3.Intersect(z3.Plus(blank), z3.Concat(any_star(), z3.Union(*[R[nm] for nm in names]), any_star())))
        # class assignment: the strings on which the ordered alternation chooses alternative k are those
        # on which the documented grammar (first-character dispatch, same priority) chooses class k
        earlier_impl, earlier_doc = [], []
        for nm in names:
            chosen_impl = prefixed(R[nm]) if not earlier_impl else \
                z3.Intersect(prefixed(R[nm]), z3.Complement(z3.Union(*earlier_impl) if len(earlier_impl) > 1 else earlier_impl[0]))
            chosen_doc = prefixed(doc[nm]) if not earlier_doc else \
                z3.Intersect(prefixed(doc[nm]), z3.Complement(z3.Union(*earlier_doc) if len(earlier_doc) > 1 else earlier_doc[0]))
            # N9 (recorded): quoted strings containing CR, FF or VT are outside the documented String
            dom = z3.Intersect(no_nl, z3.Complement(z3.Concat(any_star(), rx.char_class('\r\x0b\x0c'), any_star())))
            empty('%s.%s.chosen-iff-documented.1' % (which, nm), z3.Intersect(dom, chosen_impl, z3.Complement(chosen_doc)))
            empty('%s.%s.chosen-iff-documented.2' % (which, nm), z3.Intersect(dom, chosen_doc, z3.Complement(chosen_impl)))
            earlier_impl.append(prefixed(R[nm]))
            earlier_doc.append(prefixed(doc[nm]))
    # token languages equal the documented lexical productions
    # (not for UNEXPECTED: only the union of the alternatives matters there -- excluding NBSP from
    # UNEXPECTED changes nothing because SYMBOL already covers it; see DESIGN 3.7)
    for nm in ('SYMBOL', 'ROLE', 'ALIGNMENT', 'LPAREN', 'RPAREN', 'SLASH'):
        empty('%s.language.1' % nm, z3.Intersect(R[nm], z3.Complement(doc[nm])))
        empty('%s.language.2' % nm, z3.Intersect(doc[nm], z3.Complement(R[nm])))
    empty('COMMENT.language.1', z3.Intersect(R['COMMENT'], no_nl, z3.Complement(doc['COMMENT'])))
    empty('COMMENT.language.2', z3.Intersect(doc['COMMENT'], z3.Complement(R['COMMENT'])))
    # STRING: the documented strings are strings; outside N9 (CR/FF/VT) the two languages agree
    okchars = z3.Star(rx.not_chars('\n\r\x0b\x0c'))
    empty('STRING.language.documented-accepted', z3.Intersect(doc['STRING'], z3.Complement(R['STRING'])))
    empty('STRING.language.no-more-outside-N9', z3.Intersect(R['STRING'], okchars, z3.Complement(doc['STRING'])))
    # strings are prefix-free (a STRING token cannot be extended or cut to another STRING token) and
    # contain no unescaped quote inside: maximal munch is the only munch
    empty('STRING.prefix-free', z3.Intersect(R['STRING'], z3.Concat(R['STRING'], z3.Plus(z3.AllChar(RE)))))
    # delimiters never occur inside SYMBOL / ROLE
    for nm in ('SYMBOL', 'ROLE'):
        body = R[nm] if nm == 'SYMBOL' else R[nm]
        inner = z3.Concat(z3.AllChar(RE), any_star()) if nm == 'ROLE' else any_star()
        empty('%s.no-delimiter-inside' % nm,
              z3.Intersect(R[nm], z3.Concat(inner if nm == 'ROLE' else any_star(), rx.char_class(NOTNAME), any_star())))
    # determinism of every quantifier (justifies reading greedy matching as longest match, T1)
    for nm, p in pats.items():
        tree = rx.parse(p, verbose=True)
        for j, (body_first, follow_first) in enumerate(rx.quantifier_sites(tree)):
            out.append(Obligation('lexer:%s.quantifier%d.deterministic' % (nm, j), 'regex', [],
                                  z3.Not(z3.And(z3.InRe(x, body_first), z3.InRe(x, follow_first))), {}))
    return out


def json_facts(repo):
    """the output of json.dumps (assumed language, T4) is exactly one STRING token for the lexer"""
    from . import external
    pats, orders = load_patterns(repo)
    string = rx.from_python(pats['STRING'], verbose=True)
    x = z3.String('x')
    out = []

    def empty(name, r):
        out.append(Obligation('json:' + name, 'regex', [], z3.Not(z3.InRe(x, r)), {}))
    dumped = external.json_dumps_ascii_re()
    empty('dumps-output-is-a-STRING', z3.Intersect(dumped, z3.Complement(string)))
    empty('dumps-output-has-no-line-break-or-blank-but-space',
          z3.Intersect(dumped, z3.Concat(any_star(), rx.char_class('\t\r\n\x0b\x0c\x85\u2028\u2029'), any_star())))
    empty('dumps-output-is-documented-String', z3.Intersect(dumped, z3.Complement(documented()['STRING'])))
    # the token does not end early: no proper prefix of a dumped string is itself a STRING
    empty('dumps-output-not-cut', z3.Intersect(z3.Concat(string, z3.Plus(z3.AllChar(RE))), dumped))
    # evaluating: a JSON string literal starts and ends with a quote (type STRING iff quoted)
    empty('json-string-is-quoted', z3.Intersect(external.json_string_re(),
                                                z3.Complement(z3.Concat(rx.ch('"'), any_star(), rx.ch('"')))))
    return out


SPLITLINES = '\r\n|[\n\r\x0b\x0c\x1c\x1d\x1e\x85\u2028\u2029]'   # str.splitlines() (CPython docs table) [T1]


def linebreak_facts(repo):
    """C09: in string input only LF, CRLF and CR end a line.  lex() splits str input either with a
    module-level compiled pattern (X.split(lines)) or with str.splitlines(); the facts: the language
    of the splitter is exactly {CRLF, CR, LF}, and CRLF is one break, not two."""
    mod = repo.module('penman._lexer')
    f = mod.func('lex')
    pat = None
    how = None
    for n in ast.walk(f):
        if not (isinstance(n, ast.Assign) and len(n.targets) == 1 and isinstance(n.targets[0], ast.Name)
                and n.targets[0].id == 'lines' and isinstance(n.value, ast.Call)
                and isinstance(n.value.func, ast.Attribute)):
            continue
        call = n.value
        if call.func.attr == 'splitlines' and isinstance(call.func.value, ast.Name) and call.func.value.id == 'lines' \
                and not call.args and not call.keywords:
            pat, how = SPLITLINES, 'str.splitlines()'
        elif call.func.attr == 'split' and isinstance(call.func.value, ast.Name) and len(call.args) == 1 \
                and isinstance(call.args[0], ast.Name) and call.args[0].id == 'lines':
            c = mod.consts.get(call.func.value.id)
            if (isinstance(c, ast.Call) and isinstance(c.func, ast.Attribute) and c.func.attr == 'compile'
                    and len(c.args) == 1 and isinstance(c.args[0], ast.Constant) and isinstance(c.args[0].value, str)
                    and not c.keywords):
                pat, how = c.args[0].value, '%s = re.compile(%r)' % (call.func.value.id, c.args[0].value)
    if pat is None:
        raise ValueError('how lex() splits str input into lines is not recognised (neither a compiled literal '
                         'pattern .split(lines) nor lines.splitlines())')
    out = []
    x = z3.String('x')
    r = rx.from_python(pat)
    want = z3.Union(z3.Re(z3.StringVal('\r\n')), z3.Re(z3.StringVal('\r')), z3.Re(z3.StringVal('\n')))
    info = {'splitter': how}
    out.append(Obligation('linebreak:nothing-else-ends-a-line', 'regex', [],
                          z3.Not(z3.InRe(x, z3.Intersect(r, z3.Complement(want)))), info))
    out.append(Obligation('linebreak:lf-crlf-cr-end-a-line', 'regex', [],
                          z3.Not(z3.InRe(x, z3.Intersect(want, z3.Complement(r)))), info))
    # leftmost alternative wins: a CRLF must be consumed whole by the first alternative that matches at a CR
    items = [(op, av) for op, av in rx.parse(pat)]
    if len(items) == 1 and items[0][0] is rx.sre_c.BRANCH:
        alts = [rx.translate(b) for b in items[0][1][1]]
        # every alternative before the first one accepting CRLF must reject "\r" (else CRLF is two breaks)
        goal = z3.BoolVal(True)
        conj = []
        seen_crlf = z3.BoolVal(False)
        for a in alts:
            conj.append(z3.Or(seen_crlf, z3.Not(z3.InRe(z3.StringVal('\r'), a))))
            seen_crlf = z3.Or(seen_crlf, z3.InRe(z3.StringVal('\r\n'), a))
        goal = z3.And(*conj)
    else:
        goal = z3.BoolVal(False)
    out.append(Obligation('linebreak:crlf-is-one-break', 'regex', [], z3.simplify(goal), dict(info, witness='\r\n')))
    return out


SHIPPED_MODELS = {'amr': 'penman.models.amr'}


def model_facts(repo):
    """C13 / C03: role inversion is an involution only if a model never defines a role together with
    its own inverse spelling (the recorded finding N7 is about tables a user writes).  For the models
    penman ships this is a fact about their role tables, read from the live source: no string r such
    that both r and r + '-of' match the table (the table's keys are the alternatives of one anchored
    alternation, as Model.__init__ compiles them)."""
    msrc = repo.module('penman.model').text
    if "'|'.join" not in msrc:
        raise ValueError('Model.__init__ no longer joins the role table with "|" into one pattern')
    out = []
    for short, modname in SHIPPED_MODELS.items():
        mod = repo.module(modname)
        table = mod.consts.get('roles')
        if table is None:
            raise ValueError('%s has no literal `roles` table' % modname)
        keys = list(ast.literal_eval(table))
        lang = z3.Union(*[rx.from_python(k) for k in keys]) if len(keys) > 1 else rx.from_python(keys[0])
        r = z3.String('r')
        out.append(Obligation('model:%s.no-role-with-its-inverse' % short, 'regex', [],
                              z3.Not(z3.And(z3.InRe(r, lang), z3.InRe(z3.Concat(r, z3.StringVal('-of')), lang))),
                              {'model': short, 'roles': len(keys)}))
    return out
