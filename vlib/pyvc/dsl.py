"""Names used by the sidecar contract files.

The verifier never executes the sidecar (it reads the files as ASTs).  This module gives the
same names a *native* meaning, so that a contract can also be evaluated on real penman objects:
calling a contract function with concrete arguments runs its `requires(...)`/`ensures(...)`
calls and records their truth values (counterexample replay, bounded arming)."""
import re as _re

_record = None     # active recording: list of (kind, label, value)
_state = {}        # 'result', 'old' map for the active evaluation


def contract(target, **options):
    def deco(fn):
        fn.__contract_target__ = target
        return fn
    return deco


class _Any:
    """native stand-in for the value of an uninterpreted specification function: equal to everything
    (a clause that only names a result by such a function says nothing natively)"""
    def __eq__(self, other):
        return True

    def __ne__(self, other):
        return False

    __hash__ = None

    def __getitem__(self, k):
        return self

    def __bool__(self):
        return True

    def __iter__(self):
        return iter(())

    def __len__(self):
        return 0

    def __call__(self, *a, **k):
        return self

    def __getattr__(self, name):
        if name.startswith('__'):
            raise AttributeError(name)
        return self


ANY = _Any()


def spec(fn=None, **options):
    if fn is None:
        if options.get('uninterpreted'):
            return lambda f: (lambda *a, **k: ANY)
        return lambda f: f
    return fn


def lemma(fn):
    return fn


def requires(v):
    if _record is not None:
        _record.append(('requires', None, bool(v)))


def ensures(v, label=None):
    if _record is not None:
        _record.append(('ensures', label, bool(v)))


def raises(*a, **k):
    return None


def invariant(*a, **k):
    return None


decreases = modifies = option = local = induct = exclude = use = invariant


def evaluate(contract_fn, args, result, olds):
    """run the contract natively: returns [(kind, label, bool or exception text)]"""
    global _record
    g = contract_fn.__globals__
    saved = {k: g.get(k, _MISSING) for k in ('result',)}
    g['result'] = result
    _state['olds'] = olds
    _record = []
    try:
        try:
            contract_fn(*args)
        except Exception as e:   # a clause that cannot be evaluated natively
            _record.append(('error', None, '%s: %s' % (type(e).__name__, e)))
        return list(_record)
    finally:
        _record = None
        for k, v in saved.items():
            if v is _MISSING:
                g.pop(k, None)
            else:
                g[k] = v


_MISSING = object()


# ---- specification vocabulary, natively ---------------------------------------------------

def old(x):
    return _state.get('olds', {}).get(id(x), x)


def implies(a, b):
    return (not a) or bool(b)


def has(model, role):
    return model._has_role(role)


def noop(model):
    return type(model).__name__ == 'NoOpModel'


def norm_has(model, role):
    return role in model.normalizations


def norm_get(model, role):
    return model.normalizations.get(role)


def reif_has(model, role):
    return role in model.reifications


def reif_get(model, role):
    return model.reifications.get(role)


def dereif_has(model, c):
    return c in model.dereifications


def dereif_get(model, c):
    return model.dereifications.get(c)


def top_role(model):
    return model.top_role


def is_str(x):
    return isinstance(x, str)


def is_int(x):
    return isinstance(x, int) and not isinstance(x, bool)


def is_bool(x):
    return isinstance(x, bool)


def is_float(x):
    return isinstance(x, float)


def is_none(x):
    return x is None


def is_tuple(x):
    return isinstance(x, tuple)


def is_list(x):
    return isinstance(x, list)


def is_atomic(x):
    return x is None or isinstance(x, (str, int, float))


def is_obj(x):
    return hasattr(x, '__slots__') or hasattr(x, '__dict__')


def is_inst(x, clsname):
    return any(c.__name__ == clsname for c in type(x).__mro__)


def in_re(s, pattern):
    return isinstance(s, str) and _re.fullmatch(pattern, s, _re.S) is not None


def forall_idx(seq, f):
    import inspect
    n = len(inspect.signature(f).parameters)
    return all(f(i, x) if n > 1 else f(i) for i, x in enumerate(seq))


def exists_idx(seq, f):
    import inspect
    n = len(inspect.signature(f).parameters)
    return any(f(i, x) if n > 1 else f(i) for i, x in enumerate(seq))


class set_where:
    """the set of all x with pred(x); compared with a real set extensionally over the values at hand"""
    def __init__(self, pred):
        self.pred = pred

    def __eq__(self, other):
        if isinstance(other, set_where):
            return NotImplemented
        universe = set(_state.get('universe', ())) | set(other)
        return all((x in other) == bool(self.pred(x)) for x in universe)

    __hash__ = None

    def __contains__(self, x):
        return bool(self.pred(x))


def set_of_seq(seq):
    return set(seq)


def set_add(s, x):
    return set(s) | {x}


def set_union(a, b):
    return set(a) | set(b)


def subset(a, b):
    return all(x in b for x in a)


def dict_has(d, k):
    return k in d


def dict_get(d, k, default=None):
    return d.get(k, default)


def dict_values_str(d):
    return all(isinstance(v, str) for v in d.values())


def dict_keys(d):
    return list(d)


def seq_eq(a, b):
    return list(a) == list(b)


def mk(clsname, *fields):
    from penman import layout, surface
    if clsname == 'Push':
        return layout.Push(*fields)
    if clsname == 'Pop':
        return layout.POP
    cls = getattr(surface, clsname)
    return cls(*fields)


def truthy(x):
    return bool(x)


def nfields(obj):
    return len(obj) if isinstance(obj, tuple) else len(getattr(obj, '__slots__', ()))


def fld(obj, name):
    return getattr(obj, name)


def aln_marker(clsname, text):
    from penman import surface
    return getattr(surface, clsname).from_string(text)


def aln_ok(text):
    from penman import surface
    try:
        surface.Alignment.from_string(text)
        return True
    except Exception:
        return False


def str_of(x):
    return str(x)


def json_dumps(s):
    import json
    return json.dumps(s)


def json_container(s):
    import json
    if s in ('true', 'false', 'null'):
        return False
    try:
        return isinstance(json.loads(s, parse_constant=str), (list, dict))
    except Exception:
        return False


def last_index(s, sub):
    return s.rfind(sub)


def at_iteration_start(k, x):
    """proof hint vocabulary (use(...) clauses); no native meaning is needed"""
    return x
