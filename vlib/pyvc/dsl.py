"""Names used by the sidecar contract files.  The files are never executed by
the verifier (it reads them as ASTs); these definitions only keep them
importable and lint-clean."""


def contract(target, **options):
    def deco(fn):
        fn.__contract_target__ = target
        return fn
    return deco


def spec(fn=None, **options):
    if fn is None:
        return lambda f: f
    return fn


def lemma(fn):
    return fn


def _noop(*a, **k):
    return None


requires = ensures = raises = invariant = decreases = modifies = option = local = induct = exclude = _noop
