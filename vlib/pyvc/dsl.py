"""Names used by the sidecar contract files.

The verifier never executes the sidecar (it reads the files as ASTs).  This module gives the
same names a *native* meaning, so that a contract can also be evaluated on real penman objects:
calling a contract function with concrete arguments runs its `requires(...)`/`ensures(...)`
calls and records their truth values (counterexample replay, bounded arming)."""
import re as _re

_record = None     # active recording: list of (kind, label, value)
_state = {}        # 'result', 'old' map for the active evaluation


def contract(target, **options):
    def deco(fn):
        fn.__contract_target__ = target
        return fn
    return deco


_touched = [False]     # an ANY took part in the clause being evaluated: the clause is not judged natively


class _Any:
    """native stand-in for the value of an uninterpreted specification function: equal to everything
    (a clause that only names a result by such a function says nothing natively)"""
    def __eq__(self, other):
        _touched[0] = True
        return True

    def __ne__(self, other):
        _touched[0] = True
        return False

    def __hash__(self):
        return 0

    def __getitem__(self, k):
        _touched[0] = True
        return self

    def __bool__(self):
        _touched[0] = True
        return True

    def __iter__(self):
        _touched[0] = True
        return iter(())

    def __len__(self):
        _touched[0] = True
        return 0

    def __call__(self, *a, **k):
        _touched[0] = True
        return self

    def __getattr__(self, name):
        if name.startswith('__'):
            raise AttributeError(name)
        _touched[0] = True
        return self


ANY = _Any()


def spec(fn=None, **options):
    if fn is None:
        if options.get('uninterpreted'):
            native = options.get('native')
            if native:
                # the function a result is named after, natively: an expression over the parameters
                def deco(f):
                    names = f.__code__.co_varnames[:f.__code__.co_argcount]
                    code = compile(native, '<native %s>' % f.__name__, 'eval')

                    def g(*a):
                        import importlib
                        return eval(code, {'importlib': importlib}, dict(zip(names, a)))
                    return g
                return deco
            return lambda f: (lambda *a, **k: ANY)
        return lambda f: f
    return fn


def lemma(fn):
    return fn


def _judged(v):
    t = _touched[0] or isinstance(v, _Any)
    _touched[0] = False
    return None if t else bool(v)


def requires(v):
    if _record is not None:
        _record.append(('requires', None, _judged(v)))


def ensures(v, label=None):
    if _record is not None:
        _record.append(('ensures', label, _judged(v)))


def raises(exc=None, when=None, **k):
    """raises(Exc, when=cond): recorded with the truth value of its condition on the entry state"""
    if _record is not None:
        _record.append(('raises', getattr(exc, '__name__', str(exc)), None if when is None else _judged(when)))
    return None


def invariant(*a, **k):
    return None


decreases = modifies = option = local = induct = exclude = use = invariant


try:    # exception classes named in raises(...) clauses
    from penman.exceptions import (PenmanError, ConstantError, GraphError, LayoutError, DecodeError,  # noqa: F401
                                   SurfaceError, ModelError)
except Exception:   # pragma: no cover  (the verifier's interpreter has no penman)
    pass


def evaluate(contract_fn, args, result, olds, whitebox=()):
    """run the contract natively: returns [(kind, label, bool or exception text)]"""
    global _record
    g = contract_fn.__globals__
    # locals of the real function that a white-box clause mentions have no native value: ANY
    wb = [n for n in whitebox if n in contract_fn.__code__.co_names
          and n not in contract_fn.__code__.co_varnames]
    saved = {k: g.get(k, _MISSING) for k in ['result'] + wb}
    g['result'] = result
    for n in wb:
        g[n] = ANY
    _state['olds'] = olds
    _record = []
    try:
        stmts = _clauses(contract_fn)
        names = contract_fn.__code__.co_varnames[:contract_fn.__code__.co_argcount]
        ns = dict(g)          # one namespace, so that lambdas inside clauses see the parameters
        ns.update(zip(names, args))
        ns['_dsl_eq'] = _dsl_eq
        for code in stmts:
            _touched[0] = False
            try:
                exec(code, ns)
            except Exception as e:   # a clause that cannot be evaluated natively
                _record.append(('error', None, '%s: %s' % (type(e).__name__, e)))
        return list(_record)
    finally:
        _record = None
        for k, v in saved.items():
            if v is _MISSING:
                g.pop(k, None)
            else:
                g[k] = v


_MISSING = object()
_clause_cache = {}


def _clauses(fn):
    """the contract's statements compiled one by one (an error in one clause does not hide the others),
    with implies(a, b) read lazily as (not a) or b, as the verifier reads it"""
    if fn in _clause_cache:
        return _clause_cache[fn]
    import ast, inspect, textwrap

    class Lazy(ast.NodeTransformer):
        def visit_Compare(self, node):
            self.generic_visit(node)
            # marker objects (Push, ...) compare by identity in penman; in a contract  a == b  means "the same
            # markers in the same order", as it does for the verifier
            if len(node.ops) == 1 and isinstance(node.ops[0], (ast.Eq, ast.NotEq)):
                call = ast.Call(func=ast.Name(id='_dsl_eq', ctx=ast.Load()), args=[node.left, node.comparators[0]],
                                keywords=[])
                return call if isinstance(node.ops[0], ast.Eq) else ast.UnaryOp(op=ast.Not(), operand=call)
            return node

        def visit_Call(self, node):
            self.generic_visit(node)
            if isinstance(node.func, ast.Name) and node.func.id == 'implies' and len(node.args) == 2:
                return ast.BoolOp(op=ast.Or(), values=[ast.UnaryOp(op=ast.Not(), operand=node.args[0]), node.args[1]])
            return node

    src = textwrap.dedent(inspect.getsource(fn))
    fdef = [n for n in ast.parse(src).body if isinstance(n, ast.FunctionDef)][0]
    out = []
    for st in fdef.body:
        if isinstance(st, ast.Expr) and isinstance(st.value, ast.Constant):
            continue
        if isinstance(st, ast.Expr) and isinstance(st.value, ast.Call) and isinstance(st.value.func, ast.Name) \
                and st.value.func.id in ('invariant', 'decreases', 'induct', 'use', 'option', 'local', 'modifies',
                                         'exclude'):
            continue     # proof-only clauses have no native meaning
        m = ast.Module(body=[Lazy().visit(st)], type_ignores=[])
        ast.fix_missing_locations(m)
        out.append(compile(m, '<contract %s>' % fn.__name__, 'exec'))
    _clause_cache[fn] = out
    return out


# ---- specification vocabulary, natively ---------------------------------------------------

def old(x):
    return _state.get('olds', {}).get(id(x), x)


def implies(a, b):
    return (not a) or bool(b)


def has(model, role):
    return model._has_role(role)


def noop(model):
    return type(model).__name__ == 'NoOpModel'


def norm_has(model, role):
    return role in model.normalizations


def norm_get(model, role):
    return model.normalizations.get(role)


def reif_has(model, role):
    return role in model.reifications


def reif_get(model, role):
    return model.reifications.get(role)


def dereif_has(model, c):
    return c in model.dereifications


def dereif_get(model, c):
    return model.dereifications.get(c)


def top_role(model):
    return model.top_role


def is_str(x):
    return isinstance(x, str)


def is_int(x):
    return isinstance(x, int) and not isinstance(x, bool)


def is_bool(x):
    return isinstance(x, bool)


def is_float(x):
    return isinstance(x, float)


def is_none(x):
    return x is None


def is_tuple(x):
    return isinstance(x, tuple)


def is_list(x):
    return isinstance(x, list)


def is_atomic(x):
    return x is None or isinstance(x, (str, int, float))


def is_obj(x):
    return hasattr(x, '__slots__') or hasattr(x, '__dict__')


def is_inst(x, clsname):
    return any(c.__name__ == clsname for c in type(x).__mro__)


def in_re(s, pattern):
    return isinstance(s, str) and _re.fullmatch(pattern, s, _re.S) is not None


def forall_idx(seq, f):
    import inspect
    n = len(inspect.signature(f).parameters)
    return all(f(i, x) if n > 1 else f(i) for i, x in enumerate(seq))


def exists_idx(seq, f):
    import inspect
    n = len(inspect.signature(f).parameters)
    return any(f(i, x) if n > 1 else f(i) for i, x in enumerate(seq))


class set_where:
    """the set of all x with pred(x); compared with a real set extensionally over the values at hand"""
    def __init__(self, pred):
        self.pred = pred

    def __eq__(self, other):
        if isinstance(other, set_where):
            return NotImplemented
        universe = set(_state.get('universe', ())) | set(other)
        return all((x in other) == bool(self.pred(x)) for x in universe)

    __hash__ = None

    def __contains__(self, x):
        return bool(self.pred(x))


def set_of_seq(seq):
    return set(seq)


def set_add(s, x):
    return set(s) | {x}


def set_union(a, b):
    return set(a) | set(b)


def subset(a, b):
    return all(x in b for x in a)


def dict_has(d, k):
    return k in d


def dict_get(d, k, default=None):
    return d.get(k, default)


def dict_values_str(d):
    return all(isinstance(v, str) for v in d.values())


def dict_keys(d):
    return list(d)


def seq_eq(a, b):
    return list(a) == list(b)


def mk(clsname, *fields):
    from penman import layout, surface
    if clsname == 'Push':
        # Push objects compare by identity in penman; a specification means "a Push of this variable"
        class _PushOf(layout.Push):
            __slots__ = ()

            def __eq__(self, other):
                return isinstance(other, layout.Push) and other.variable == self.variable

            def __ne__(self, other):
                return not self.__eq__(other)

            __hash__ = None
        return _PushOf(*fields)
    if clsname == 'Pop':
        return layout.POP
    cls = getattr(surface, clsname)
    return cls(*fields)


def truthy(x):
    return bool(x)


def nfields(obj):
    return len(obj) if isinstance(obj, tuple) else len(getattr(obj, '__slots__', ()))


def fld(obj, name):
    return getattr(obj, name)


def aln_marker(clsname, text):
    from penman import surface
    return getattr(surface, clsname).from_string(text)


def aln_ok(text):
    from penman import surface
    try:
        surface.Alignment.from_string(text)
        return True
    except Exception:
        return False


def str_of(x):
    return str(x)


def json_dumps(s):
    import json
    return json.dumps(s)


def json_container(s):
    import json
    if s in ('true', 'false', 'null'):
        return False
    try:
        return isinstance(json.loads(s, parse_constant=str), (list, dict))
    except Exception:
        return False


def last_index(s, sub):
    return s.rfind(sub)


def at_iteration_start(k, x):
    """proof hint vocabulary (use(...) clauses); no native meaning is needed"""
    return x


def link_sidecars():
    """The verifier reads all sidecar files as one namespace; natively each is a module.  Make every
    specification function visible in every sidecar module (names a module defines itself win)."""
    import importlib, os, types
    d = os.path.join(os.path.dirname(os.path.dirname(os.path.dirname(os.path.abspath(__file__)))), 'contracts')
    mods = []
    for fn in sorted(os.listdir(d)):
        if fn.endswith('.py') and not fn.startswith('_'):
            mods.append(importlib.import_module('contracts.' + fn[:-3]))
    table = {}
    for m in mods:
        for k, v in vars(m).items():
            if isinstance(v, types.FunctionType) and getattr(v, '__module__', None) == m.__name__ \
                    and not hasattr(v, '__contract_target__'):
                table.setdefault(k, v)
    for m in mods:
        for k, v in table.items():
            if k not in vars(m):
                setattr(m, k, v)
    return mods


def init(xs):
    return xs[:-1]


def last(xs):
    return xs[-1]


def markers_eq(a, b):
    """two marker lists are the same markers in the same order (marker objects compare by identity in
    penman; a copy of a graph has equal markers in this sense)"""
    if a is None or b is None:
        return a is b
    return [repr(x) for x in a] == [repr(x) for x in b]


def dict_eq(a, b):
    return dict(a or {}) == dict(b or {}) and list(a or {}) == list(b or {})


def forall_keys(d, f):
    return all(f(k) for k in (d or {}))


def dict_wf(d):
    return True


def _canon(x):
    if isinstance(x, _Any):
        return x
    try:
        from penman.epigraph import Epidatum
    except Exception:
        Epidatum = ()
    if Epidatum and isinstance(x, Epidatum) and type(x).__eq__ is object.__eq__:
        return ('$marker', type(x).__name__, repr(x))
    if isinstance(x, list):
        return [_canon(y) for y in x]
    if isinstance(x, tuple) and not hasattr(x, '_fields'):
        return tuple(_canon(y) for y in x)
    if isinstance(x, dict):
        return {k: _canon(v) for k, v in x.items()}
    return x


def _dsl_eq(a, b):
    r = (a == b)
    if isinstance(a, _Any) or isinstance(b, _Any) or r is True:
        return r
    try:
        return _canon(a) == _canon(b)
    except Exception:
        return r
