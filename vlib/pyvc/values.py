"""Sorts and value encodings of the pyvc verification-condition generator.

Every Python value that can flow through the verified functions is a term of
the universal datatype ``Val`` (nested through ``Seq``); sets and dicts are
kept at executor level as arrays; semantic models are an uninterpreted sort so
that every proof holds for *every* model."""
import z3

_Val = z3.Datatype('Val')
_SeqValRef = z3.SeqSort(z3.DatatypeSort('Val'))
_Val.declare('VNone')
_Val.declare('VBool', ('b', z3.BoolSort()))
_Val.declare('VInt', ('i', z3.IntSort()))
_Val.declare('VFloat', ('r', z3.RealSort()))
_Val.declare('VStr', ('s', z3.StringSort()))
_Val.declare('VTuple', ('items', _SeqValRef))
_Val.declare('VList', ('elems', _SeqValRef))
_Val.declare('VObj', ('cls', z3.IntSort()), ('fields', _SeqValRef))
Val = _Val.create()
SeqVal = z3.SeqSort(Val)
SetVal = z3.ArraySort(Val, z3.BoolSort())
MapVal = z3.ArraySort(Val, Val)
MapSet = z3.ArraySort(Val, SeqVal)      # dict of sets: a set is the sequence of its elements
ModelS = z3.DeclareSort('ModelS')
SetS = z3.DeclareSort('SetS')            # sets passed to specification functions (by membership)
KeyS = z3.DeclareSort('KeyS')          # abstract sort of sort-key values
String = z3.StringSort()
Int = z3.IntSort()
Bool = z3.BoolSort()

VNone = Val.VNone
VBool, VInt, VFloat, VStr, VTuple, VList, VObj = (
    Val.VBool, Val.VInt, Val.VFloat, Val.VStr, Val.VTuple, Val.VList, Val.VObj)
is_none, is_bool, is_int, is_float, is_str, is_tuple, is_list, is_obj = (
    Val.is_VNone, Val.is_VBool, Val.is_VInt, Val.is_VFloat, Val.is_VStr,
    Val.is_VTuple, Val.is_VList, Val.is_VObj)
get_b, get_i, get_r, get_s, get_items, get_elems, get_cls, get_fields = (
    Val.b, Val.i, Val.r, Val.s, Val.items, Val.elems, Val.cls, Val.fields)

# closed world of marker / token classes (T9)
CLASSES = {
    'Epidatum': 1, 'LayoutMarker': 2, 'Push': 3, 'Pop': 4, 'AlignmentMarker': 5,
    'Alignment': 6, 'RoleAlignment': 7, 'Token': 8, 'OtherEpidatum': 9,
    'DecodeError': 20, 'ModelError': 21, 'SurfaceError': 22,
}
SUBCLASSES = {
    'Epidatum': ['Push', 'Pop', 'Alignment', 'RoleAlignment', 'OtherEpidatum'],
    'LayoutMarker': ['Push', 'Pop'],
    'Push': ['Push'], 'Pop': ['Pop'],
    'AlignmentMarker': ['Alignment', 'RoleAlignment'],
    'Alignment': ['Alignment'], 'RoleAlignment': ['RoleAlignment'],
    'Token': ['Token'], 'OtherEpidatum': ['OtherEpidatum'], 'DecodeError': ['DecodeError'],
}
FIELDS = {
    'Push': ['variable'], 'Pop': [], 'Alignment': ['indices', 'prefix'],
    'RoleAlignment': ['indices', 'prefix'], 'OtherEpidatum': ['mode'],
    'Token': ['type', 'text', 'lineno', 'offset', 'line'],
    'DecodeError': ['message', 'lineno', 'offset', 'text'],
}
MODE = {'Push': 0, 'Pop': 0, 'Alignment': 2, 'RoleAlignment': 1}


def S(s):
    return z3.StringVal(s)


def vstr(s):
    return VStr(S(s)) if isinstance(s, str) else VStr(s)


def vint(i):
    return VInt(z3.IntVal(i)) if isinstance(i, int) else VInt(i)


def vbool(b):
    return VBool(z3.BoolVal(b)) if isinstance(b, bool) else VBool(b)


def empty_seq():
    return z3.Empty(SeqVal)


def seq_of(items):
    items = list(items)
    if not items:
        return empty_seq()
    if len(items) == 1:
        return z3.Unit(items[0])
    return z3.Concat(*[z3.Unit(x) for x in items])


def vtuple(items):
    return VTuple(seq_of(items))


def vlist(items):
    return VList(seq_of(items))


def vobj(clsname, fields):
    return VObj(z3.IntVal(CLASSES[clsname]), seq_of(fields))


def isinstance_cls(v, clsname):
    ids = [CLASSES[c] for c in SUBCLASSES[clsname]]
    return z3.And(is_obj(v), z3.Or(*[get_cls(v) == i for i in ids]))


def truthy(v):
    """Python truthiness, per dynamic type (never 'is not None')."""
    return z3.If(is_none(v), False,
           z3.If(is_bool(v), get_b(v),
           z3.If(is_int(v), get_i(v) != 0,
           z3.If(is_float(v), get_r(v) != 0,
           z3.If(is_str(v), z3.Length(get_s(v)) > 0,
           z3.If(is_tuple(v), z3.Length(get_items(v)) > 0,
           z3.If(is_list(v), z3.Length(get_elems(v)) > 0, True)))))))


def is_atomic(v):
    """penman.tree.is_atomic: None or str/int/float (bool is an int in Python)."""
    return z3.Or(is_none(v), is_str(v), is_int(v), is_float(v), is_bool(v))


def empty_set():
    return z3.K(Val, z3.BoolVal(False))


# uninterpreted vocabulary of semantic models (proofs hold for every model)
set_mem = z3.Function('set_mem', SetS, Val, Bool)
set_of_seq = z3.Function('set_of_seq', SeqVal, SetS)      # the set of a sequence's elements
m_has = z3.Function('m_has', ModelS, String, Bool)          # _role_re.match(role) is not None
m_noop = z3.Function('m_noop', ModelS, Bool)                # NoOpModel (overrides deinvert)
m_norm_has = z3.Function('m_norm_has', ModelS, String, Bool)   # role in normalizations
m_norm = z3.Function('m_norm', ModelS, String, String)         # normalizations[role]
m_reif_has = z3.Function('m_reif_has', ModelS, Val, Bool)      # role in reifications
m_reif = z3.Function('m_reif', ModelS, Val, Val)               # reifications[role] (list of 3-tuples)
m_dereif_has = z3.Function('m_dereif_has', ModelS, Val, Bool)
m_dereif = z3.Function('m_dereif', ModelS, Val, Val)
m_top_role = z3.Function('m_top_role', ModelS, Val)
# assumed external functions
json_dumps_str = z3.Function('json_dumps_str', String, String)    # json.dumps(str)
str_of = z3.Function('str_of', Val, String)                        # str(x) for non-str x
aln_indices = z3.Function('aln_indices', String, Val)              # AlignmentMarker.from_string
aln_prefix = z3.Function('aln_prefix', String, Val)
aln_ok = z3.Function('aln_ok', String, Bool)
key_fn = z3.Function('key_fn', Val, KeyS)                          # an arbitrary sort key on roles


def _denth(t):
    """map z3's internal seq.nth_i / seq.nth_u back to seq.nth and drop the ite they come in
    (memoised globally: every sub-term is rewritten once per process)"""
    k = t.get_id()
    hit = _DENTH.get(k)
    if hit is not None:
        return hit[1]
    if not _has_nth(t):
        _DENTH[k] = (t, t)
        return t
    if z3.is_quantifier(t):
        body = _denth(t.body())
        if body.eq(t.body()):
            r = t
        else:
            vs = [z3.Const(t.var_name(i), t.var_sort(i)) for i in range(t.num_vars())]
            # bound variables are de Bruijn indices in body(): rebuild through substitute_vars
            inst = z3.substitute_vars(body, *reversed(vs))
            r = z3.ForAll(vs, inst) if t.is_forall() else z3.Exists(vs, inst)
        _DENTH[k] = (t, r)
        return r
    if not z3.is_app(t) or t.num_args() == 0:
        _DENTH[k] = (t, t)
        return t
    kids = t.children()
    args = [_denth(c) for c in kids]
    name = t.decl().name()
    if name in ('seq.nth_i', 'seq.nth_u'):
        r = args[0][args[1]]
    elif t.decl().kind() == z3.Z3_OP_ITE and args[1].eq(args[2]):
        r = args[1]
    elif all(a.eq(b) for a, b in zip(args, kids)):
        r = t
    else:
        r = t.decl()(*args)
    _DENTH[k] = (t, r)
    return r


_HAS_NTH = {}      # ast id -> (ast kept alive, bool): does the term contain seq.nth_i / seq.nth_u
_DENTH = {}        # ast id -> (ast kept alive, rewritten term)


def _has_nth(t):
    if t.get_id() in _HAS_NTH:
        return _HAS_NTH[t.get_id()][1]
    stack = [(t, False)]
    while stack:
        e, done = stack.pop()
        k = e.get_id()
        if k in _HAS_NTH:
            continue
        kids = [e.body()] if z3.is_quantifier(e) else (e.children() if z3.is_app(e) else [])
        if not done:
            stack.append((e, True))
            stack.extend((c, False) for c in kids if c.get_id() not in _HAS_NTH)
            continue
        v = (z3.is_app(e) and not z3.is_quantifier(e) and e.decl().name() in ('seq.nth_i', 'seq.nth_u')) \
            or any(_HAS_NTH[c.get_id()][1] for c in kids)
        _HAS_NTH[k] = (e, bool(v))
    return _HAS_NTH[t.get_id()][1]


def simp(t):
    """z3.simplify with the internal seq.nth_i / seq.nth_u functions (which crash z3 5.1 inside
    recursive definitions and which cvc5 cannot read) mapped back to seq.nth"""
    r = z3.simplify(t)
    if z3.is_true(r) or z3.is_false(r):
        return r
    if _has_nth(r):
        try:
            r = _denth(r)
        except Exception:
            return t
        if _has_nth(r):
            return t
    return r
