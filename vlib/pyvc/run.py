"""Deductive tier of ./check: generate the obligations of a property's units
from the current /repo source, discharge them, decode and replay counter-models."""
import json
import os
import time
import traceback

import z3

from . import frontend, symex, calls, solve, units

VERIF = os.path.dirname(os.path.dirname(os.path.dirname(os.path.abspath(__file__))))

TRUSTED_BASE = [
    'T1 CPython re for the constructs used; finditer scanning rule; role table abstracted as has(model, role)',
    'T2 str methods as documented (startswith, endswith, partition, rpartition, lstrip(c), rstrip, join, slicing)',
    'T3 list/dict/set built-ins; sorted/list.sort stable permutation; dict insertion order; copy.deepcopy deep and fresh',
    'T4 json.dumps/json.loads as documented',
    'T7 floats as reals; cross-type numeric equality (1 == 1.0 == True) not modelled; strings over the SMT-LIB alphabet',
    'T9 closed world of Model subclasses {Model, NoOpModel} and of marker classes',
    'T10 arguments have the types declared in the contracts (type invariants are preconditions)',
    'T11 logging is effect-free (logger calls and `if debug:` blocks are dropped by the extraction)',
    'T12 the SMT solvers (z3 5.1, cvc5 1.0.3, z3 4.8.12) and the VC generator vlib/pyvc itself',
    'comprehension bodies are evaluated with total semantics (no safety obligations inside comprehensions)',
]


def build(repo_root):
    repo = frontend.Repo(repo_root)
    side = frontend.Sidecar(os.path.join(VERIF, 'contracts'))
    eng = symex.Engine(repo, side)
    return eng


def run_property(prop, tier, repo_root, seed, open_findings):
    t0 = time.time()
    u = units.UNITS.get(prop, {'functions': [], 'lemmas': []})
    eng = build(repo_root)
    functions = []
    obligations = []
    undecided = []
    violations = []
    # the unit is closed under "relies on the contract of": a function whose contract a proof uses is
    # verified in the same run (a change inside a callee must fail the callee's own obligations here, not
    # only under another property)
    fn_todo = list(u['functions']) + [k for k in u.get('thorough_functions', []) if k not in u['functions']]
    fn_done = set()
    while True:
        fn_todo.extend(sorted(k for k in eng.contracts_called if k not in fn_todo))
        fn_pending = [k for k in fn_todo if k not in fn_done]
        if not fn_pending:
            break
        key = fn_pending[0]
        fn_done.add(key)
        c = eng.sidecar.contracts.get(key)
        if c is None:
            undecided.append({'name': key, 'reason': 'no contract'})
            continue
        if c.options.get('axiom'):
            functions.append({'name': key, 'tier': 'assumed (abstraction boundary)', 'obligations': 0})
            continue
        if key in u.get('thorough_functions', []) and tier != 'thorough':
            # large functions (minutes of VC generation) are verified in the thorough tier only; in the quick tier
            # their contract is listed as assumed
            functions.append({'name': key, 'tier': 'P in the thorough tier only (not run in this tier)', 'obligations': 0})
            eng.assumed_contracts.add(key)
            continue
        if c.options.get('bounded'):
            functions.append({'name': key, 'tier': 'B (contract stated on the real function and executed by the '
                                                   'native sweep; not proved)', 'obligations': 0,
                              'reason': c.options.get('why', '')})
            continue
        tf = time.time()
        r = calls.verify_function(eng, key, c)
        functions.append({'name': key, 'sha256': r.source_hash, 'tier': 'P' if r.status == 'ok' else 'undecided',
                          'paths': r.paths, 'obligations': len(r.obligations), 'reason': r.reason,
                          'contract': 'frame-only' if c.options.get('frames') else 'functional',
                          'vcgen_s': round(time.time() - tf, 1)})
        if r.status != 'ok':
            undecided.append({'name': key, 'reason': 'outside the verified subset: ' + r.reason})
            continue
        if r.returns + sum(1 for o in r.obligations if o.kind == 'raises') == 0:
            undecided.append({'name': key, 'reason': 'vacuous: no reachable return or no obligation'})
        obligations.extend((key, ob) for ob in r.obligations)
    # lemmas given as facts to obligations above (use(...)) are proved in the same run
    todo = list(u.get('lemmas', []))
    done_lemmas = set()
    while True:
        todo.extend(sorted(n for n in eng.lemmas_used if n not in todo))
        pending = [n for n in todo if n not in done_lemmas]
        if not pending:
            break
        name = pending[0]
        done_lemmas.add(name)
        c = eng.sidecar.lemmas.get(name)
        if c is None:
            undecided.append({'name': 'lemma.' + name, 'reason': 'no such lemma'})
            continue
        r = calls.verify_function(eng, 'lemma:' + name, c)
        functions.append({'name': 'lemma.' + name, 'tier': 'P' if r.status == 'ok' else 'undecided',
                          'paths': r.paths, 'obligations': len(r.obligations), 'reason': r.reason})
        if r.status != 'ok':
            undecided.append({'name': 'lemma.' + name, 'reason': r.reason})
            continue
        obligations.extend(('lemma:' + name, ob) for ob in r.obligations)
    # regular-expression facts about the lexer patterns
    if 'lexer' in u.get('regex', []):
        from . import lexfacts
        try:
            facts = lexfacts.facts(eng.repo)
            functions.append({'name': 'penman._lexer:PATTERNS/PENMAN_RE/TRIPLE_RE (regex facts)', 'tier': 'P',
                              'obligations': len(facts)})
            obligations.extend(('regex:lexer', ob) for ob in facts)
        except Exception as e:
            undecided.append({'name': 'regex:lexer', 'reason': 'patterns could not be read/translated: %s' % e})
    if 'linebreak' in u.get('regex', []):
        from . import lexfacts
        try:
            facts = lexfacts.linebreak_facts(eng.repo)
            functions.append({'name': 'penman._lexer:_LINE_BREAK / lex (line terminators of str input)', 'tier': 'P',
                              'obligations': len(facts)})
            obligations.extend(('regex:linebreak', ob) for ob in facts)
        except Exception as e:
            undecided.append({'name': 'regex:linebreak', 'reason': str(e)})
    if 'models' in u.get('regex', []):
        from . import lexfacts
        try:
            facts = lexfacts.model_facts(eng.repo)
            functions.append({'name': 'penman.models.*: role tables of the shipped models (regex facts)', 'tier': 'P',
                              'obligations': len(facts)})
            obligations.extend(('regex:models', ob) for ob in facts)
        except Exception as e:
            undecided.append({'name': 'regex:models', 'reason': str(e)})
    if 'json' in u.get('regex', []):
        from . import lexfacts
        try:
            facts = lexfacts.json_facts(eng.repo)
            functions.append({'name': 'json.dumps output language vs STRING (regex facts, T4)', 'tier': 'P',
                              'obligations': len(facts)})
            obligations.extend(('regex:json', ob) for ob in facts)
        except Exception as e:
            undecided.append({'name': 'regex:json', 'reason': str(e)})
    # definitional clauses are not obligations
    obligations = [(k, ob) for k, ob in obligations if not ob.name.split('#')[0].endswith('post.define')]
    plain, groups = apply_induction(eng, obligations)
    timeout = 20 if tier == 'quick' else 120
    confirm = (tier == 'thorough')
    discharged = 0
    by_backend = {}
    solver_seconds = 0.0
    samples = []
    n_obligations = len(plain) + len(groups)

    confirmed = [0]

    def good(r):
        # one `unsat` discharges an obligation; in the thorough tier a second solver is given a grace
        # period to confirm it and the number confirmed is reported
        if r['verdict'] == 'unsat' and not r.get('unconfirmed') and r.get('confirmed_by'):
            confirmed[0] += 1
        return r['verdict'] == 'unsat'

    def account(r):
        nonlocal solver_seconds
        solver_seconds += r['seconds']

    results = solve.discharge_all([ob for _, ob in plain], timeout_s=timeout, confirm=confirm)
    open_obs = []
    for (key, ob), r in zip(plain, results):
        account(r)
        if good(r):
            discharged += 1
            by_backend[r['by']] = by_backend.get(r['by'], 0) + 1
            if len(samples) < 10:
                samples.append({'obligation': ob.name, 'function': key, 'verdict': 'unsat', 'by': r['by'],
                                'seconds': round(r['seconds'], 3)})
        elif r['verdict'] == 'sat':
            from . import replay
            violations.append(replay.violation_for(eng, key, ob, r, repo_root))
        else:
            open_obs.append((key, ob, r))
    # a second, longer attempt for what timed out (the budget is wall-clock: a loaded machine must not
    # flip a verdict to undecided)
    if open_obs:
        again, rest = open_obs[:24], open_obs[24:]
        res2 = solve.discharge_all([ob for _, ob, _ in again], timeout_s=timeout * 4, confirm=confirm)
        open_obs = []
        for (key, ob, r), r2 in zip(again, res2):
            account(r2)
            if good(r2):
                discharged += 1
                by_backend[r2['by']] = by_backend.get(r2['by'], 0) + 1
            elif r2['verdict'] == 'sat':
                from . import replay
                violations.append(replay.violation_for(eng, key, ob, r2, repo_root))
            else:
                open_obs.append((key, ob, r2))
        open_obs.extend(rest)
    # obligations the solvers left open: a bounded search for a small counterexample decides some
    # of them (a model found under bounds is a model); the rest stay undecided
    def refute(queries):
        for text, extra, bound in queries:
            r2 = solve.race(text, 10)
            if r2['verdict'] == 'sat':
                r2['bounded_search'] = bound
                return r2, extra
        return None, None
    if open_obs:
        from concurrent.futures import ThreadPoolExecutor
        prepared = [solve.bounded_queries(ob) for _, ob, _ in open_obs[:12]]
        with ThreadPoolExecutor(4) as pool:
            outs = list(pool.map(refute, prepared))
        outs += [(None, None)] * (len(open_obs) - len(outs))
        reported = set()
        for (key, ob, r), (r2, extra) in zip(open_obs, outs):
            if r2 is not None:
                account(r2)
                base = ob.name.split('#')[0]
                if base in reported:
                    continue
                reported.add(base)
                from . import replay
                from .symex import Obligation
                ob2 = Obligation(ob.name, ob.kind, list(ob.pc) + list(extra), ob.goal, ob.info)
                r2['name'] = ob.name
                violations.append(replay.violation_for(eng, key, ob2, r2, repo_root))
            else:
                undecided.append({'name': ob.name, 'reason': 'solver %s %s' % (r['by'], json.dumps(r.get('detail')))})
    # obligations proved by induction (InductionGroup): closure of the hypotheses, base + step, direct
    if groups:
        flat = [(gi, o) for gi, g in enumerate(groups) for o in g.closure_obligations()]
        res = solve.discharge_all([o for _, o in flat], timeout_s=min(timeout, 10), confirm=False)
        closed = {gi: [] for gi in range(len(groups))}
        for (gi, o), r in zip(flat, res):
            account(r)
            closed[gi].append(r['verdict'] == 'unsat')
        flat = [(gi, o) for gi, g in enumerate(groups) for o in g.induction_obligations(closed[gi])]
        res = solve.discharge_all([o for _, o in flat], timeout_s=timeout, confirm=confirm)
        okv = {}
        last_by = {}
        for (gi, o), r in zip(flat, res):
            account(r)
            tag = o.name.rsplit('.', 1)[1].split('-')[0]
            okv[(gi, tag)] = okv.get((gi, tag), True) and good(r)
            last_by[gi] = r['by']
        ok = {gi: any(v for (g2, _), v in okv.items() if g2 == gi) for gi in range(len(groups))}
        retry = []
        for gi, g in enumerate(groups):
            if ok[gi]:
                discharged += 1
                by_backend[last_by[gi]] = by_backend.get(last_by[gi], 0) + 1
                if len(samples) < 10:
                    samples.append({'obligation': g.ob.name, 'function': g.key, 'verdict': 'unsat',
                                    'how': 'induction over the sequence parameter', 'by': last_by[gi]})
            else:
                retry.append(g)
        res = solve.discharge_all([g.ob for g in retry], timeout_s=timeout, confirm=confirm)
        for g, r in zip(retry, res):
            account(r)
            if good(r):
                discharged += 1
                by_backend[r['by']] = by_backend.get(r['by'], 0) + 1
            elif r['verdict'] == 'sat':
                from . import replay
                violations.append(replay.violation_for(eng, g.key, g.ob, r, repo_root))
            else:
                undecided.append({'name': g.ob.name, 'reason': 'not provable by induction and the direct query is %s %s'
                                  % (r['by'], json.dumps(r.get('detail')))})
    obligations = list(range(n_obligations))
    return {
        'obligations': len(obligations), 'discharged': discharged, 'violations': violations,
        'undecided': undecided, 'functions': functions, 'solver_seconds': round(solver_seconds, 2),
        'by_backend': by_backend,
        'confirmed_by_second_solver': confirmed[0] if confirm else None, 'samples': samples,
        'checker_cmd': 'python3-vt -m vlib.cli %s --tier %s (vlib/pyvc: VCs from %s/penman, raced on z3-new / cvc5 / /usr/bin/z3, %ds per query)' % (prop, tier, repo_root, timeout),
        'trusted_base': TRUSTED_BASE + ['sidecar markers: ' + m for m in eng.sidecar.trusted_markers]
        + ['assumed contract of a callee (not proved here): ' + k for k in sorted(eng.assumed_contracts)],
        'assumptions': ['definitional clauses (label=define) name the result of a deterministic function by an uninterpreted function of its arguments'],
        'vacuity': {'functions_with_reachable_return': sum(1 for f in functions if f.get('tier') == 'P')},
        'wall_s': round(time.time() - t0, 2),
    }


def replay(prop, payload, repo_root):
    from . import replay as rp
    return rp.replay_file(prop, payload, repo_root)


def mentions(t, const):
    seen = set()
    stack = [t]
    while stack:
        e = stack.pop()
        if e.get_id() in seen:
            continue
        seen.add(e.get_id())
        if e.eq(const):
            return True
        stack.extend(e.children())
        if z3.is_quantifier(e):
            stack.append(e.body())
    return False


class InductionGroup:
    """An obligation proved by induction over a sequence-valued parameter T (`induct` hint).

    Hypotheses H: the path-condition conjuncts that do not mention T, plus those that do and are
    prefix-closed (c[s] and len s > 0 imply c[init s], proved individually).  Then
        base:  len s0 = 0, H[s0]            |-  goal[s0]
        step:  len s > 0, H[s], goal[init s] |-  goal[s]
    which gives  forall s. H[s] => goal[s],  hence the obligation (its path condition contains
    H[T]).  If this fails the original obligation is tried directly; only a `sat` of the direct
    query is a counterexample."""

    def __init__(self, key, ob, const):
        from .symex import Obligation, fresh
        from . import values as vl
        self.key, self.ob, self.const = key, ob, const
        self.s = fresh('ind', vl.SeqVal)
        self.n = z3.Length(self.s)
        self.init = z3.SubSeq(self.s, 0, self.n - 1)
        self.s0 = fresh('ind0', vl.SeqVal)   # (a ground empty sequence makes z3's rewriter unfold without end)
        # a fact  c == term(T)  about a local c (the final value of a variable) is used up front: the goal
        # then speaks of term(T) itself, so that the induction generalises over both sides
        goal0 = ob.goal
        pcs = list(ob.pc)
        # A => B: A joins the hypotheses (it keeps talking about the whole sequence), B is what is inducted on
        for _ in range(3):
            if z3.is_implies(goal0):
                pcs.append(goal0.arg(0))
                goal0 = goal0.arg(1)
            elif z3.is_or(goal0) and goal0.num_args() == 2 and z3.is_not(goal0.arg(0)):
                pcs.append(goal0.arg(0).arg(0))
                goal0 = goal0.arg(1)
            else:
                break
        for p in list(pcs):
            if z3.is_eq(p) and mentions(p, const):
                a, b = p.arg(0), p.arg(1)
                for x, y in ((a, b), (b, a)):
                    if z3.is_const(x) and x.decl().kind() == z3.Z3_OP_UNINTERPRETED and not x.eq(const) \
                            and not mentions(y, x) and mentions(goal0, x):
                        goal0 = z3.substitute(goal0, (x, y))
                        break
        self.ob = Obligation(ob.name, ob.kind, pcs, goal0, ob.info)
        ob = self.ob
        self.goal = self.strengthen(ob.goal)
        self.h0 = [p for p in ob.pc if not mentions(p, const)]
        self.cands = [p for p in ob.pc if mentions(p, const)]
        self.Ob = Obligation

    @staticmethod
    def strengthen(goal):
        """f(.., A, ..) == f(.., B, ..) follows from A == B: induct on the inner equality (e.g. the
        joined texts are equal because the lists of texts are)"""
        g = goal
        for _ in range(4):
            if not (z3.is_eq(g) and g.num_args() == 2):
                break
            a, b = g.arg(0), g.arg(1)
            if not (z3.is_app(a) and z3.is_app(b) and a.decl().eq(b.decl()) and a.num_args() == b.num_args() and a.num_args() > 0):
                break
            diff = [(x, y) for x, y in zip(a.children(), b.children()) if not x.eq(y)]
            if len(diff) != 1:
                break
            g = diff[0][0] == diff[0][1]
        return g

    def at(self, t, x):
        return z3.substitute(t, (self.const, x))

    @staticmethod
    def instance(q, term):
        """instance of a universally quantified formula over one integer variable"""
        if z3.is_quantifier(q) and q.is_forall() and q.num_vars() == 1 and q.var_sort(0) == z3.IntSort():
            return z3.substitute_vars(q.body(), term)
        return None

    def closure_obligations(self):
        """c[s], len s > 0 |- c[init s]; a quantified c is instantiated by hand at the skolem index"""
        from .symex import fresh
        out = []
        for j, c in enumerate(self.cands):
            cs, ci = self.at(c, self.s), self.at(c, self.init)
            i0 = fresh('i0', z3.IntSort())
            gi = self.instance(ci, i0)
            if gi is not None:
                out.append(self.Ob('%s.ind-closed.%d' % (self.ob.name, j), self.ob.kind,
                                   [self.n > 0, cs, self.instance(cs, i0)], gi, self.ob.info))
            else:
                out.append(self.Ob('%s.ind-closed.%d' % (self.ob.name, j), self.ob.kind, [self.n > 0, cs], ci, self.ob.info))
        return out

    def induction_obligations(self, closed_flags):
        """base and step, for the goal as stated (.ind-) and, where it differs, for the goal strengthened to
        the equality of the differing arguments (.indS-); or base, step and final of the prefix induction
        (.indP-); any complete set proves the obligation"""
        hyp = list(self.h0) + [c for c, ok in zip(self.cands, closed_flags) if ok]
        hs = [self.at(h, self.s) for h in hyp]
        # quantified hypotheses are also given instantiated at the last index (what one unfolding needs)
        extra = [x for x in (self.instance(h, self.n - 1) for h in hs) if x is not None]
        out = []
        variants = [('ind', self.ob.goal)]
        if not self.goal.eq(self.ob.goal):
            variants.append(('indS', self.goal))
        # prefix induction: P(k) = goal with T replaced by its prefix of length k.  Nothing is generalised (the
        # whole path condition stays available, and definitions that capture T keep talking about T):
        #   pc |- P(0);   pc, 0 <= n < len T, P(n) |- P(n+1);   pc, P(len T) |- goal
        from .symex import fresh as _fresh
        T = self.const
        n = _fresh('indn', z3.IntSort())

        def P(k):
            return z3.substitute(self.ob.goal, (T, z3.SubSeq(T, 0, k)))
        pre_n, pre_n1 = z3.SubSeq(T, 0, n), z3.SubSeq(T, 0, n + 1)
        facts = [z3.SubSeq(pre_n1, 0, n) == pre_n, pre_n1[n] == T[n], z3.Length(pre_n1) == n + 1,
                 z3.Length(pre_n) == n, pre_n1 == z3.Concat(pre_n, z3.Unit(T[n]))]
        pcs = list(self.ob.pc)
        out.append(self.Ob('%s.indP-base' % self.ob.name, self.ob.kind, pcs, P(z3.IntVal(0)), self.ob.info))
        out.append(self.Ob('%s.indP-step' % self.ob.name, self.ob.kind,
                           pcs + [n >= 0, n < z3.Length(T), P(n)] + facts, P(n + 1), self.ob.info))
        out.append(self.Ob('%s.indP-final' % self.ob.name, self.ob.kind,
                           pcs + [P(z3.Length(T)), z3.SubSeq(T, 0, z3.Length(T)) == T], self.ob.goal, self.ob.info))
        for tag, goal in variants:
            out.append(self.Ob('%s.%s-base' % (self.ob.name, tag), self.ob.kind,
                               [z3.Length(self.s0) == 0] + [self.at(h, self.s0) for h in hyp], self.at(goal, self.s0),
                               self.ob.info))
            out.append(self.Ob('%s.%s-step' % (self.ob.name, tag), self.ob.kind,
                               [self.n > 0] + hs + extra + [self.at(goal, self.init)],
                               self.at(goal, self.s), self.ob.info))
        return out


def apply_induction(eng, obligations):
    """split the obligations into plain ones and InductionGroups (see there)"""
    import ast as _ast
    from .symex import V, static_kind
    from . import values as vl
    plain, groups = [], []
    for key, ob in obligations:
        c = (ob.info or {}).get('contract')
        label = ob.name.split(':', 1)[1].split('#')[0] if ':' in ob.name else ob.name
        hint = None
        if c is not None and label.startswith('post.'):
            for lab, expr in c.induct.items():
                if label == 'post.' + lab:
                    hint = expr
        if hint is None:
            plain.append((key, ob))
            continue
        params = dict(ob.info['params'])
        e = hint.body if isinstance(hint, _ast.Lambda) else hint
        # the hint is an expression over the entry state naming the sequence to induct over: a
        # parameter, an attribute of a parameter object, or a term such as select(self.triples, ...)
        from .symex import Exec, Unsupported
        hx = Exec(eng, None, c, spec_mode=True)
        hx.fname = key
        hx.env = dict(params)
        hx.old_env = dict(params)
        try:
            sv = hx.ev(e)
        except Unsupported:
            sv = None
        if not isinstance(sv, V) or static_kind(sv.t) not in ('VList', 'VTuple'):
            plain.append((key, ob))
            continue
        term = vl.simp(sv.t.arg(0))
        if not (mentions(ob.goal, term) or any(mentions(p, term) for p in ob.pc)):
            plain.append((key, ob))
            continue
        groups.append(InductionGroup(key, ob, term))
    return plain, groups
