"""Deductive tier of ./check: generate the obligations of a property's units
from the current /repo source, discharge them, decode and replay counter-models."""
import json
import os
import time
import traceback

from . import frontend, symex, calls, solve, units

VERIF = os.path.dirname(os.path.dirname(os.path.dirname(os.path.abspath(__file__))))

TRUSTED_BASE = [
    'T1 CPython re for the constructs used; finditer scanning rule; role table abstracted as has(model, role)',
    'T2 str methods as documented (startswith, endswith, partition, rpartition, lstrip(c), rstrip, join, slicing)',
    'T3 list/dict/set built-ins; sorted/list.sort stable permutation; dict insertion order; copy.deepcopy deep and fresh',
    'T4 json.dumps/json.loads as documented',
    'T7 floats as reals; cross-type numeric equality (1 == 1.0 == True) not modelled; strings over the SMT-LIB alphabet',
    'T9 closed world of Model subclasses {Model, NoOpModel} and of marker classes',
    'T10 arguments have the types declared in the contracts (type invariants are preconditions)',
    'T11 logging is effect-free (logger calls and `if debug:` blocks are dropped by the extraction)',
    'T12 the SMT solvers (z3 5.1, cvc5 1.0.3, z3 4.8.12) and the VC generator vlib/pyvc itself',
    'comprehension bodies are evaluated with total semantics (no safety obligations inside comprehensions)',
]


def build(repo_root):
    repo = frontend.Repo(repo_root)
    side = frontend.Sidecar(os.path.join(VERIF, 'contracts'))
    eng = symex.Engine(repo, side)
    return eng


def run_property(prop, tier, repo_root, seed, open_findings):
    t0 = time.time()
    u = units.UNITS.get(prop, {'functions': [], 'lemmas': []})
    eng = build(repo_root)
    functions = []
    obligations = []
    undecided = []
    violations = []
    for key in u['functions']:
        c = eng.sidecar.contracts.get(key)
        if c is None:
            undecided.append({'name': key, 'reason': 'no contract'})
            continue
        if c.options.get('axiom'):
            functions.append({'name': key, 'tier': 'assumed (abstraction boundary)', 'obligations': 0})
            continue
        r = calls.verify_function(eng, key, c)
        functions.append({'name': key, 'sha256': r.source_hash, 'tier': 'P' if r.status == 'ok' else 'undecided',
                          'paths': r.paths, 'obligations': len(r.obligations), 'reason': r.reason})
        if r.status != 'ok':
            undecided.append({'name': key, 'reason': 'outside the verified subset: ' + r.reason})
            continue
        if r.returns + sum(1 for o in r.obligations if o.kind == 'raises') == 0:
            undecided.append({'name': key, 'reason': 'vacuous: no reachable return or no obligation'})
        obligations.extend((key, ob) for ob in r.obligations)
    for name in u.get('lemmas', []):
        c = eng.sidecar.lemmas.get(name)
        if c is None:
            undecided.append({'name': 'lemma.' + name, 'reason': 'no such lemma'})
            continue
        r = calls.verify_function(eng, 'lemma:' + name, c)
        functions.append({'name': 'lemma.' + name, 'tier': 'P' if r.status == 'ok' else 'undecided',
                          'paths': r.paths, 'obligations': len(r.obligations), 'reason': r.reason})
        if r.status != 'ok':
            undecided.append({'name': 'lemma.' + name, 'reason': r.reason})
            continue
        obligations.extend(('lemma:' + name, ob) for ob in r.obligations)
    # definitional clauses are not obligations
    obligations = [(k, ob) for k, ob in obligations if not ob.name.split('#')[0].endswith('post.define')]
    timeout = 20 if tier == 'quick' else 120
    results = solve.discharge_all([ob for _, ob in obligations], timeout_s=timeout, confirm=(tier == 'thorough'))
    discharged = 0
    by_backend = {}
    solver_seconds = 0.0
    samples = []
    for (key, ob), r in zip(obligations, results):
        solver_seconds += r['seconds']
        if r['verdict'] == 'unsat' and not r.get('unconfirmed'):
            discharged += 1
            by_backend[r['by']] = by_backend.get(r['by'], 0) + 1
            if len(samples) < 10:
                samples.append({'obligation': ob.name, 'function': key, 'verdict': 'unsat', 'by': r['by'],
                                'seconds': round(r['seconds'], 3)})
        elif r['verdict'] == 'sat':
            from . import replay
            v = replay.violation_for(eng, key, ob, r, repo_root)
            violations.append(v)
        else:
            undecided.append({'name': ob.name, 'reason': 'solver %s %s' % (r['by'], json.dumps(r.get('detail')))})
    return {
        'obligations': len(obligations), 'discharged': discharged, 'violations': violations,
        'undecided': undecided, 'functions': functions, 'solver_seconds': round(solver_seconds, 2),
        'by_backend': by_backend, 'samples': samples,
        'checker_cmd': 'python3-vt -m vlib.cli %s --tier %s (vlib/pyvc: VCs from %s/penman, raced on z3-new / cvc5 / /usr/bin/z3, %ds per query)' % (prop, tier, repo_root, timeout),
        'trusted_base': TRUSTED_BASE + ['sidecar markers: ' + m for m in eng.sidecar.trusted_markers],
        'assumptions': ['definitional clauses (label=define) name the result of a deterministic function by an uninterpreted function of its arguments'],
        'vacuity': {'functions_with_reachable_return': sum(1 for f in functions if f.get('tier') == 'P')},
        'wall_s': round(time.time() - t0, 2),
    }


def replay(prop, payload, repo_root):
    from . import replay as rp
    return rp.replay_file(prop, payload, repo_root)
