"""Native contract sweep (runs under /venv/bin/python with PYTHONPATH=<repo>:/verif).

Every sidecar contract is *also* executed: the real function is called on generated concrete
arguments and the contract's clauses are evaluated natively through vlib/pyvc/dsl.py.  This is a
dynamic, bounded check -- never counted as proof.  It serves two purposes:

* cross-check of the verifier: a clause that pyvc proves but that fails natively means the encoder
  or the contract is wrong (reported, and the proof is not believed);
* falsifier: on a changed tree, an obligation the solvers leave undecided often has a concrete
  failing input that the sweep finds, which turns UNDECIDED into a replayable VIOLATION.

usage: python -m vlib.pyvc.sweep <json: {"targets": [...], "n": int, "seed": int}>
output: one JSON line {"evaluations": n, "skipped": n, "per_target": {...}, "failures": [...]}
"""
import copy
import importlib
import json
import logging
import os
import random
import sys

logging.disable(logging.CRITICAL)

VERIF = os.path.dirname(os.path.dirname(os.path.dirname(os.path.abspath(__file__))))
if VERIF not in sys.path:
    sys.path.insert(0, VERIF)

from vlib.pyvc import dsl, frontend          # noqa: E402
from vlib.bounded import base, gens          # noqa: E402

import penman                                 # noqa: E402
from penman import layout, surface            # noqa: E402
from penman.graph import Graph                # noqa: E402
from penman.tree import Tree                  # noqa: E402
from penman.epigraph import Epidatum          # noqa: E402

ROLES = [':ARG0', ':ARG0-of', 'ARG1', ':mod', ':domain', ':domain-of', '/', ':instance', ':a-of-of', ':consist-of',
         ':consist', '', ':', ':polarity', ':ARG0~1', ':ARG1~e.2,3', ':op1', ':op10', ':op2-of-of-of', 'mod-of',
         ':location', ':quant', ':wiki', ':-of', '-of', ':r~x', ':R', ':S~2', ':ARG2-of', ':subevent-of', ':prep-on',
         ':point-of-view', ':point-of-view-of', ':part-of-speech-of-of', ':out-of-of-range', ':of', ':x-ofy-of']
ATOMS = [None, '', 'a', 'b', 'v1', '"x~y"~1', '"a b"', '12', '-1.5e3', '+', '-', 'x~e.1', '"s"', '0', '0.0', 'abc~1',
         '"\\""', '"a\\\\"', '1e', 'inf', 'nan', '1_0', '"', '"x', 'imperative', '"multi word"~e.3,4', 'x~', 1, 0, 1.5,
         '0x1', '١', ' 1', '.5', '5.', '-0', '1e400']
CONCEPTS = ['have-org-role-91', 'be-located-at-91', 'have-mod-91', 'x', None, 'have-quant-91', 'foo', 'be-polite-91']
MODEL_NAMES = ['default', 'amr', 'noop', 'miniamr', 'custom']


class SeqIter:
    """an iterator whose remaining items can be looked at (the abstract view `iterator.seq`)"""
    def __init__(self, items):
        self._items = list(items)
        self._i = 0

    def __iter__(self):
        return self

    def __next__(self):
        if self._i >= len(self._items):
            raise StopIteration
        v = self._items[self._i]
        self._i += 1
        return v

    @property
    def seq(self):
        return self._items[self._i:]


class Ctx:
    """one generation context: a tree, the graph it reads as, a model"""
    def __init__(self, rnd):
        self.rnd = rnd
        self.model_name = rnd.choice(MODEL_NAMES)
        self.model = base.get_model(self.model_name)
        for _ in range(20):
            try:
                node = gens.random_tree(rnd, maxn=rnd.choice([1, 2, 3, 5, 7]), maxd=rnd.choice([1, 2, 3, 4]))
                self.tree = Tree(node, metadata=rnd.choice([{}, {'id': '1'}, {'snt': 'a b', 'id': 'x y', 'e': ''}]))
                if rnd.random() < 0.15:
                    # variables spelled like the names the transformations generate ('_', '_2', '_3', ...)
                    self.tree.reset_variables('_{j}')
                self.graph = layout.interpret(self.tree, model=self.model)
                break
            except Exception:
                continue
        else:
            self.tree = Tree(('a', [('/', 'b')]))
            self.graph = layout.interpret(self.tree, model=self.model)
        if rnd.random() < 0.3:
            self.edit_markers()
        self.nodes = self.tree.nodes() or [self.tree.node]

    def edit_markers(self):
        g, rnd = self.graph, self.rnd
        keys = list(g.epidata)
        if not keys:
            return
        for _ in range(rnd.randint(1, 3)):
            k = rnd.choice(keys)
            op = rnd.choice(['drop', 'clear', 'push', 'pop', 'dup', 'delkey'])
            if op == 'drop' and g.epidata[k]:
                g.epidata[k].pop(rnd.randrange(len(g.epidata[k])))
            elif op == 'clear':
                g.epidata[k] = []
            elif op == 'push':
                g.epidata[k].insert(rnd.randint(0, len(g.epidata[k])),
                                    layout.Push(rnd.choice(sorted(map(str, g.variables())) + ['zz'])))
            elif op == 'pop':
                g.epidata[k].append(layout.POP)
            elif op == 'dup' and g.epidata[k]:
                g.epidata[k].append(g.epidata[k][0])
            elif op == 'delkey' and len(g.epidata) > 1:
                del g.epidata[k]
                keys.remove(k)

    # ---- pools ------------------------------------------------------------------------------
    def triple(self):
        r = self.rnd
        reif = sorted(getattr(self.model, 'reifications', {}) or {})
        if reif and r.random() < 0.35:
            # prefer roles whose reifying concept is shared with other roles (table order then matters)
            by_concept = {}
            for role in reif:
                for entry in self.model.reifications[role]:
                    by_concept.setdefault(entry[0], []).append(role)
            shared = sorted({ro for c, rs in by_concept.items() if len(set(rs)) > 1 for ro in rs})
            role = r.choice(shared) if shared and r.random() < 0.6 else r.choice(reif)
            return (r.choice(['a', 'b', 'v1']), role, r.choice(['a', 'b', 'c', '1', '"x"']))
        if self.graph.triples and r.random() < 0.75:
            return r.choice(self.graph.triples)
        return (r.choice(['a', 'b', 'v1', None]), r.choice(ROLES), r.choice(ATOMS[:20] + ['a', 'b']))

    def var(self):
        vs = sorted(v for v in self.graph.variables() if isinstance(v, str))
        return self.rnd.choice(vs + ['zz', None]) if vs else None

    def branch(self):
        r = self.rnd
        bs = [b for n in self.nodes for b in n[1]]
        if bs and r.random() < 0.8:
            return r.choice(bs)
        return (r.choice(ROLES), r.choice(ATOMS))

    def markers(self):
        r = self.rnd
        vals = [v for v in self.graph.epidata.values()]
        out = list(r.choice(vals)) if vals and r.random() < 0.7 else []
        if r.random() < 0.4:
            out.append(r.choice([layout.POP, layout.Push('a'), surface.Alignment((1,)), surface.RoleAlignment((2, 3), prefix='e.')]))
        return out


def value_for(ctx, target, pname, kind, sofar):
    r = ctx.rnd
    fname = target.split(':')[1]
    if kind == 'Model' or (pname in ('model',)):
        return ctx.model
    if kind == 'Graph' and pname == 'other':
        ts = [t for t in ctx.graph.triples if r.random() < 0.5]
        if r.random() < 0.6:
            ts.append(ctx.triple())
        if r.random() < 0.3:
            ts = ts + ts[:1]
        r.shuffle(ts)
        epi = {t: [layout.Push('zz')] if r.random() < 0.2 else list(ctx.graph.epidata.get(t, [])) for t in ts if r.random() < 0.8}
        return Graph(ts, top=r.choice([None, None, ctx.var()]), epidata=epi, metadata={'id': 'other'})
    if kind == 'Graph':
        if r.random() < 0.08:
            # boundary: the empty graph (with or without metadata)
            return Graph([], metadata=dict(ctx.graph.metadata) if r.random() < 0.5 else None)
        if pname == 'self' and r.random() < 0.3:
            ctx.graph._top = r.choice([ctx.graph._top, None, ctx.var()])
        if r.random() < 0.12 and ctx.graph.triples:
            # an edited graph: a triple taken out (what was below it may no longer be connected), or an
            # explicit top that is a target only / no variable at all
            g = ctx.graph
            if r.random() < 0.6:
                t = r.choice(g.triples)
                g.triples.remove(t)
                g.epidata.pop(t, None)
            else:
                g._top = r.choice([t[2] for t in g.triples if isinstance(t[2], str)] + ['zz'])
        return ctx.graph
    if kind == 'Tree':
        return ctx.tree
    if kind == 'TokenIterator':
        from penman._lexer import lex
        text = r.choice([penman.format(ctx.tree), '(a / b :c "d" :e 1.5)', 'a b ( ) / :r', '', '(a', 'instance(a, b) ^ r(a, c)',
                         '# ::id 1\n(a / b)', '(a / "unterminated', 'r(a , b)^s(a,c) ^ t(a ,d)', 'r(a b)', ', b) ^ r(a)',
                         '# ::snt x ::id 3\n# plain\n(a / b~1 :r~2 (c) :s )', '(a :r :s b / )', ') (', '(a / b (c'])
        from penman._lexer import TokenIterator
        try:
            toks = list(lex(text).iterator) if False else None
            it0 = lex(text)
            toks = []
            while it0:
                toks.append(it0.next())
        except Exception:
            toks = []
        it = TokenIterator(SeqIter(toks))
        for _ in range(r.randint(0, 4)):
            if it:
                it.next()
        return it
    if pname in ('t', 'node') and kind == 'val':
        return r.choice(ctx.nodes)
    if pname in ('triple', 'instance_triple', 'source_triple', 'target_triple'):
        if fname == 'Model.dereify' and 'reified' in sofar:
            tr = sofar['reified']
            # Model.reify returns (source triple, instance triple, target triple)
            return tr[{'instance_triple': 1, 'source_triple': 0, 'target_triple': 2}[pname]]
        return ctx.triple()
    if pname == 'triples':
        ts = list(ctx.graph.triples)
        if kind == 'optlist' and r.random() < 0.1:
            return None
        return ts if r.random() < 0.6 else ts[:r.randint(0, len(ts))]
    if pname in ('variables', 'vars'):
        vs = set(ctx.graph.variables())
        if kind == 'optset' and r.random() < 0.2:
            return None
        if r.random() < 0.3:
            vs = set(list(vs)[:r.randint(0, len(vs))])
        return vs
    if pname == 'role':
        pool = ROLES + ([None] if kind == 'val' else [])
        if ctx.graph.triples and r.random() < 0.4:
            return r.choice(ctx.graph.triples)[1]
        return r.choice(pool)
    if pname in ('source', 'top'):
        return r.choice([None, ctx.var(), ctx.var()])
    if pname == 'target' and kind == 'val':
        return r.choice([None, ctx.var(), r.choice(ATOMS)])
    if pname == 's' and 'from_string' in target:
        return r.choice(['1', 'e.2,3', '~4', 'e.4,3', '3,1,2', 'x7', '5,5', 'E.10,2', '~e.9,8,7', '', 'e.', 'a,b', '01',
                         'e.1,', '12,0,3'])
    if pname == 'keys' and kind == 'list':
        import penman.__main__ as pm
        ks = [k for k in pm.REARRANGE_KEYS if k != 'random']
        r.shuffle(ks)
        return ks[:r.randint(0, len(ks))] + ([ks[0]] if r.random() < 0.2 and ks else [])
    if pname == 'key_funcs':
        import penman.__main__ as pm
        return dict(pm.REARRANGE_KEYS)
    if target.endswith('Model.__init__'):
        if pname == 'self':
            from penman.model import Model
            return Model.__new__(Model)
        if pname == 'top_variable':
            return 'top'
        if pname == 'top_role':
            return ':TOP'
        if pname == 'concept_role':
            return ':instance'
        if pname == 'roles':
            return r.choice([None, {':ARG0': {}, ':mod': {}, ':ARG[0-9]': {}}])
        if pname == 'normalizations':
            return r.choice([None, {':mod-of': ':domain'}])
        if pname == 'reifications':
            base = [(':poss', 'own-01', ':ARG0', ':ARG1'), (':poss', 'have-03', ':ARG0', ':ARG1'),
                    (':mod', 'have-mod-91', ':ARG1', ':ARG2'), (':subset', 'include-91', ':ARG2', ':ARG1'),
                    (':superset', 'include-91', ':ARG1', ':ARG2'), (':role', 'have-org-role-91', ':ARG0', ':ARG2'),
                    (':employed-by', 'have-org-role-91', ':ARG0', ':ARG1'), (':beneficiary', 'benefit-01', ':ARG0', ':ARG1'),
                    (':beneficiary', 'receive-01', ':ARG2', ':ARG0')]
            r.shuffle(base)
            out_ = base[:r.randint(0, len(base))]
            if r.random() < 0.2 and out_:
                out_.append(out_[0])
            return r.choice([None, out_, out_])
    if pname == 'symbol':
        from penman._lexer import Token
        txt = r.choice(['a', 'a,b', 'a,', 'x-1,"s"', ',', 'b1', 'a,b,c'])
        return Token('SYMBOL', txt, 1, 3, 'r(' + txt + ')')
    if pname == 'fmt':
        return r.choice(['{prefix}{j}', '{prefix}{i}', 'a{i}', '{prefix}_{i}{j}', '{i}{prefix}', 'v{j}', 'x', '{prefix}'])
    if pname in ('target', 'constant_string'):
        pool = [a for a in ATOMS if a is None or isinstance(a, str)]
        return r.choice(pool)
    if pname == 'constant':
        return r.choice(ATOMS + ['a"b', 'a\\b', 'é', 'a\nb', '\x0b', ' '])
    if pname == 'edge':
        return ctx.branch()
    if pname == 'indent':
        return r.choice([None, -1, 0, 1, 2, 3, True, False]) if kind == 'val' else r.choice([True, False])
    if pname == 'column':
        return r.choice([0, 1, 4])
    if kind == 'bool':
        return r.choice([True, False])
    if pname == 'epidata' and kind == 'list':
        return ctx.markers()
    if pname == 'epidata':
        return None if r.random() < 0.2 else dict(ctx.graph.epidata)
    if pname == 'metadata':
        return None if r.random() < 0.3 else dict(ctx.tree.metadata)
    if pname == 'varmap':
        node = sofar.get('node')
        vs = [n[0] for n in Tree(node).nodes()] if node is not None else []
        m = {v: 'n%d' % i for i, v in enumerate(dict.fromkeys(vs))}
        if r.random() < 0.15 and m:
            m.pop(next(iter(m)))
        return m
    if pname == 'concept':
        return r.choice(CONCEPTS)
    if pname == 'alignment_type':
        return r.choice([surface.Alignment, surface.RoleAlignment])
    if pname == 'x':
        return r.choice(ATOMS + [(1, 2), [], ('a', []), {}])
    if pname == 'message':
        return r.choice(['Unexpected', 'x', ''])
    if pname == 'token':
        it = sofar.get('self')
        try:
            return r.choice([None, it.peek()]) if it is not None and it else None
        except Exception:
            return None
    if pname == 'choices':
        return r.choice([('SYMBOL',), ('ROLE', 'SYMBOL'), ('LPAREN',), ('SYMBOL', 'STRING', 'ALIGNMENT'), ('RPAREN',), (),
                         ('COMMENT',)])
    if pname == 'graph':
        return ctx.graph
    raise KeyError('no generator for parameter %s:%s of %s' % (pname, kind, target))


def resolve(target):
    mod, qual = target.split(':')
    qual = qual.split('@')[0]
    m = importlib.import_module(mod)
    if target == 'penman.surface:AlignmentMarker.from_string':
        # the class method is exercised through both concrete marker classes
        fns = [m.Alignment.from_string, m.RoleAlignment.from_string]
        state = {'k': 0}

        def call(s):
            state['k'] += 1
            return fns[state['k'] % 2](s)
        return ('call', call, None)
    parts = qual.split('.')
    obj = m
    if parts[-1] == 'setter':
        return ('setter', getattr(m, parts[0]), parts[1])
    for p in parts:
        obj = getattr(obj, p) if not isinstance(obj, property) else obj
    if isinstance(obj, property):
        return ('getter', obj, None)
    return ('call', obj, None)


def snapshot(x):
    if isinstance(x, Graph):
        return repr((x.triples, x._top, sorted(((k, [repr(e) for e in v]) for k, v in x.epidata.items()), key=repr),
                     dict(x.metadata)))
    if isinstance(x, Tree):
        return repr((x.node, dict(x.metadata)))
    if hasattr(x, '_role_re') or callable(x):
        return None
    if type(x).__name__ == 'TokenIterator':
        return repr((x._next, x._last, getattr(x.iterator, 'seq', None)))
    return repr(x) if not isinstance(x, (set, frozenset)) else repr(sorted(map(repr, x)))


def clone(x):
    if hasattr(x, '_role_re') or callable(x):
        return x
    try:
        return copy.deepcopy(x)
    except Exception:
        return x


def ser_arg(x):
    if isinstance(x, Graph):
        return {'$graph': {'triples': base.ser(x.triples), 'top': base.ser(x._top),
                           'epidata': [[base.ser(k), base.ser(e)] for k, e in x.epidata.items()],
                           'metadata': dict(x.metadata)}}
    if isinstance(x, Tree):
        return {'$tree': {'node': base.ser(x.node), 'metadata': dict(x.metadata)}}
    if hasattr(x, '_role_re'):
        return {'$modelname': getattr(x, '_verif_name', None) or repr(type(x).__name__)}
    if type(x).__name__ == 'TokenIterator':
        return {'$tokeniterator': 'state not serialised'}
    if isinstance(x, type):
        return {'$class': x.__name__}
    try:
        return base.ser(x)
    except Exception:
        return repr(x)


def sweep(targets, n, seed, sidecar):
    rnd = random.Random(seed)
    dsl.link_sidecars()
    cmods = {}
    out = {'evaluations': 0, 'skipped': 0, 'per_target': {}, 'failures': [], 'unsupported': {}}
    for target in targets:
        c = sidecar.contracts.get(target)
        if c is None or c.options.get('view') or any(k == 'obj' for _, k in c.params):
            continue
        if '@' in target and not target.endswith('@functional'):
            continue
        modname = 'contracts.' + c.file[:-3]
        if modname not in cmods:
            cmods[modname] = importlib.import_module(modname)
        cfn = getattr(cmods[modname], c.name)
        try:
            how, fn, attr = resolve(target)
        except Exception as e:
            out['unsupported'][target] = 'cannot resolve: %s' % e
            continue
        allowed = {e for e, _ in c.raises}
        real = fn.fget if isinstance(fn, property) else fn
        code = getattr(real, '__code__', None) or getattr(getattr(real, '__func__', None), '__code__', None)
        whitebox = tuple(n for n in (code.co_varnames if code else ()) if n not in [p for p, _ in c.params])
        stats = {'evaluated': 0, 'skipped': 0, 'raised_allowed': 0}
        seen_fail = set()
        for k in range(n):
            ctx = Ctx(rnd)
            args, sofar = [], {}
            try:
                if target.endswith('Model.dereify'):
                    tr = ctx.triple()
                    reif = getattr(ctx.model, 'reifications', {}) or {}
                    if reif and rnd.random() < 0.8:
                        by_concept = {}
                        for role in sorted(reif):
                            for entry in reif[role]:
                                by_concept.setdefault(entry[0], []).append(role)
                        shared = sorted({ro for cc, rs in by_concept.items() if len(set(rs)) > 1 for ro in rs})
                        tr = ('a', rnd.choice(shared) if shared and rnd.random() < 0.7 else rnd.choice(sorted(reif)), 'b')
                    try:
                        sofar['reified'] = ctx.model.reify(tr) if rnd.random() < 0.8 else None
                        if sofar['reified'] is None:
                            sofar.pop('reified')
                        elif rnd.random() < 0.3:
                            a, b, c3 = sofar['reified']
                            sofar['reified'] = rnd.choice([(c3, b, a), (a, b, (c3[0], ':other', c3[2])),
                                                           (a, (b[0], b[1], 'no-such-concept-91'), c3)])
                    except Exception:
                        sofar.pop('reified', None)
                for pn, kind in c.params:
                    v = value_for(ctx, target, pn, kind, sofar)
                    sofar[pn] = v
                    args.append(v)
            except KeyError as e:
                out['unsupported'][target] = str(e)
                break
            ctx.model._verif_name = ctx.model_name
            entry = [clone(a) for a in args]
            snaps = [snapshot(a) for a in args]
            _cont = [containers(a) for a in args]
            pre_shared = {(i, j): set(_cont[i]) & set(_cont[j])
                          for i in range(len(args)) for j in range(i + 1, len(args))}
            # preconditions first (on the entry values)
            rec = dsl.evaluate(cfn, [clone(a) for a in entry], dsl.ANY, {}, whitebox)
            if any(kind == 'requires' and v is False for kind, _, v in rec) or \
                    any(kind == 'error' for kind, _, v in rec if False):
                stats['skipped'] += 1
                continue
            pre_err = [v for kind, _, v in rec if kind == 'error']
            # (an error while evaluating may come from an `ensures` that needs the result: not a skip)
            try:
                if how == 'call':
                    if target.endswith('Model.__init__'):
                        fn(*args)
                        res = None
                    elif '.' in target.split(':')[1] and target.split(':')[1].split('.')[-1] == '__init__':
                        obj = fn.__self__ if hasattr(fn, '__self__') else None
                        cls = getattr(importlib.import_module(target.split(':')[0]), target.split(':')[1].split('.')[0])
                        res_obj = cls(*args[1:])
                        args[0] = res_obj
                        res = None
                    else:
                        import inspect
                        try:
                            sig = inspect.signature(fn)
                            var = [p.name for p in sig.parameters.values() if p.kind == p.VAR_POSITIONAL]
                        except (TypeError, ValueError):
                            var = []
                        if var and c.params and c.params[-1][0] == var[0]:
                            res = fn(*args[:-1], *args[-1])
                        else:
                            res = fn(*args)
                elif how == 'getter':
                    res = fn.fget(args[0])
                else:
                    setattr(args[0], attr, args[1])
                    res = None
                exc = None
            except Exception as e:
                exc = e
                res = None
            stats['evaluated'] += 1
            # raises(Exc, when=cond) clauses, judged on the entry state: (class name, condition or None)
            rclauses = [(lab, v) for kind, lab, v in rec if kind == 'raises']
            if exc is not None:
                mro = [b.__name__ for b in type(exc).__mro__]
                mine = [v for lab, v in rclauses if lab in mro]
                if mine and all(v is False for v in mine) and not c.options.get('frames'):
                    key = ('raises-when', type(exc).__name__)
                    if key not in seen_fail:
                        seen_fail.add(key)
                        out['failures'].append({'target': target, 'clause': 'raises[%s]' % type(exc).__name__,
                                                'detail': '%s raised although none of its stated conditions holds: %s'
                                                          % (type(exc).__name__, str(exc)[:150]),
                                                'args': [ser_arg(a) for a in entry], 'model': ctx.model_name})
                    continue
            elif any(v is True for lab, v in rclauses) and not c.options.get('frames'):
                lab = [lab for lab, v in rclauses if v is True][0]
                key = ('raises-missing', lab)
                if key not in seen_fail:
                    seen_fail.add(key)
                    out['failures'].append({'target': target, 'clause': 'raises[%s]' % lab,
                                            'detail': 'the stated condition for %s holds but the call returned' % lab,
                                            'args': [ser_arg(a) for a in entry], 'model': ctx.model_name})
            if exc is not None:
                if type(exc).__name__ in allowed or any(type(exc).__name__ == a or a in [b.__name__ for b in type(exc).__mro__] for a in allowed):
                    stats['raised_allowed'] += 1
                    continue
                if c.options.get('frames'):
                    continue         # a frame-only contract says nothing about exceptions
                key = ('raises', type(exc).__name__)
                if key not in seen_fail:
                    seen_fail.add(key)
                    out['failures'].append({'target': target, 'clause': 'raises[%s]' % type(exc).__name__,
                                            'detail': '%s: %s' % (type(exc).__name__, str(exc)[:200]),
                                            'args': [ser_arg(a) for a in entry], 'model': ctx.model_name})
                continue
            # frame
            changed = [pn for (pn, _), a, s0 in zip(c.params, args, snaps)
                       if s0 is not None and pn not in c.modifies and snapshot(a) != s0]
            if target.endswith('__init__'):
                changed = []
            if changed:
                key = ('frame', tuple(changed))
                if key not in seen_fail:
                    seen_fail.add(key)
                    out['failures'].append({'target': target, 'clause': 'frame[%s]' % ','.join(changed),
                                            'detail': 'argument(s) %s changed by the call' % ', '.join(changed),
                                            'args': [ser_arg(a) for a in entry], 'model': ctx.model_name})
            # ownership: no list / dict / set held directly by one argument (or by the result) may
            # be the very object another argument holds, unless it already was before the call
            names = [pn for pn, _ in c.params] + ['result']
            objs = list(args) + [res]
            after = [containers(o) for o in objs]
            for i in range(len(objs)):
                for j in range(i + 1, len(objs)):
                    if objs[i] is objs[j] or objs[i] is None or objs[j] is None:
                        continue
                    before = pre_shared.get((i, j), set()) if j < len(args) else set()
                    now = set(after[i]) & set(after[j])
                    new_shared = now - before
                    if new_shared:
                        key = ('shared', names[i], names[j])
                        if key not in seen_fail:
                            seen_fail.add(key)
                            cid = sorted(new_shared)[0]
                            out['failures'].append({
                                'target': target, 'clause': 'frame[%s]:shared with %s' % (names[i], names[j]),
                                'detail': 'after the call %s (%s) and %s (%s) hold the same mutable object'
                                          % (names[i], after[i][cid], names[j], after[j][cid]),
                                'args': [ser_arg(a) for a in entry], 'model': ctx.model_name})
            # postconditions: parameters denote entry values unless modified in place
            cargs, olds = [], {}
            for (pn, kind), a, e0, s0 in zip(c.params, args, entry, snaps):
                if pn in c.modifies or isinstance(a, (Graph, Tree)) or pn == 'self' or type(a).__name__ == 'TokenIterator':
                    cargs.append(a)
                    olds[id(a)] = e0
                elif s0 is None or snapshot(a) == s0:
                    cargs.append(a)      # unchanged: the object itself (markers compare by identity)
                else:
                    cargs.append(e0)
            rec = dsl.evaluate(cfn, cargs, res, olds, whitebox)
            ordinal = -1
            for kind, label, v in rec:
                if kind == 'error':
                    stats['clause_errors'] = stats.get('clause_errors', 0) + 1
                    stats.setdefault('clause_error_sample', str(v)[:120])
                if kind == 'ensures':
                    stats['clauses_judged' if v is not None else 'clauses_not_judged'] = \
                        stats.get('clauses_judged' if v is not None else 'clauses_not_judged', 0) + 1
                if kind == 'ensures':
                    ordinal += 1
                    if label is None:
                        label = str(ordinal)
                if kind == 'ensures' and v is False:
                    key = ('ensures', label)
                    if key in seen_fail:
                        continue
                    seen_fail.add(key)
                    out['failures'].append({'target': target, 'clause': 'post.%s' % (label if label is not None else '?'),
                                            'detail': 'postcondition %r is false on the real function' % (label,),
                                            'args': [ser_arg(a) for a in entry], 'result': ser_arg(res),
                                            'model': ctx.model_name})
        out['per_target'][target] = stats
        out['evaluations'] += stats['evaluated']
        out['skipped'] += stats['skipped']
    return out


def containers(x):
    """id -> description of the mutable containers an object holds directly (itself, if it is one)"""
    out = {}
    if isinstance(x, (list, dict, set)):
        out[id(x)] = 'itself'
    d = getattr(x, '__dict__', None)
    if isinstance(d, dict) and not isinstance(x, type):
        for k, v in d.items():
            if isinstance(v, (list, dict, set)):
                out[id(v)] = '.' + k
    return out


def main():
    spec = json.loads(sys.argv[1]) if len(sys.argv) > 1 else json.load(sys.stdin)
    sidecar = frontend.Sidecar(os.path.join(VERIF, 'contracts'))
    targets = spec.get('targets') or sorted(sidecar.contracts)
    res = sweep(targets, int(spec.get('n', 100)), int(spec.get('seed', 1)), sidecar)
    print(json.dumps(res, default=repr))


if __name__ == '__main__':
    main()
